#!/usr/bin/env python3
"""Sensitivity runs: apply a property-breaking patch to a scratch clone of /repo, confirm the
pinned tests still pass, run the quick checks against the clone, replay every reported
violation, clean up. Never touches /repo, /verif/evidence or /verif/replays.

  sim/sensitivity.py <patch.diff> [--props C06,C07] [--jobs N] [--keep] [--skip-tests] [--tier quick]

Prints one JSON object: {"patch":..., "tests_pass":..., "checks": {"C06": {"rc":1, "violations":[...],
"replays_reproduce":true}, ...}}
"""
import json
import os
import re
import shutil
import subprocess
import sys
import time

ROOT = os.path.dirname(os.path.dirname(os.path.abspath(__file__)))
ALL = ["C06", "C07", "C08", "C17", "C02"]


def sh(cmd, cwd=None, env=None, timeout=None):
    p = subprocess.run(cmd, cwd=cwd, env=env, stdout=subprocess.PIPE, stderr=subprocess.STDOUT, text=True,
                       timeout=timeout)
    return p.returncode, p.stdout


def main():
    argv = sys.argv[1:]
    patch = os.path.abspath(argv[0])
    props = ALL
    jobs = None
    keep = "--keep" in argv
    skip_tests = "--skip-tests" in argv
    tier = "quick"
    if "--props" in argv:
        props = argv[argv.index("--props") + 1].split(",")
    if "--jobs" in argv:
        jobs = argv[argv.index("--jobs") + 1]
    if "--tier" in argv:
        tier = argv[argv.index("--tier") + 1]
    name = re.sub(r"[^A-Za-z0-9_]+", "_", os.path.basename(os.path.dirname(patch)) + "_" + os.path.basename(patch))
    scratch = "/var/tmp/verif_mut_%s_%d" % (name, os.getpid())
    repo = os.path.join(scratch, "repo")
    os.makedirs(scratch)
    res = {"patch": patch, "scratch": scratch, "checks": {}}
    try:
        rc, out = sh(["git", "clone", "-q", "/repo", repo])
        if rc != 0:
            raise SystemExit("clone failed: " + out)
        rc, out = sh(["git", "apply", patch], cwd=repo)
        if rc != 0:
            res["error"] = "patch does not apply: " + out[-500:]
            print(json.dumps(res, indent=1))
            return 2
        env = dict(os.environ, CARGO_NET_OFFLINE="true")
        if not skip_tests:
            t0 = time.time()
            rc, out = sh(["cargo", "test", "--workspace", "--no-fail-fast", "--offline", "--target-dir",
                          os.path.join(scratch, "work", "target-tests")], cwd=repo, env=env)
            passed = sum(int(x) for x in re.findall(r"test result: \w+\. (\d+) passed", out))
            failed = sum(int(x) for x in re.findall(r"test result: \w+\. \d+ passed; (\d+) failed", out))
            res["tests"] = {"rc": rc, "passed": passed, "failed": failed, "wall_s": round(time.time() - t0, 1)}
            res["tests_pass"] = (rc == 0 and failed == 0)
            shutil.rmtree(os.path.join(scratch, "work", "target-tests"), ignore_errors=True)
        cenv = dict(env, VERIF_REPO=repo, VERIF_WORK=os.path.join(scratch, "work"),
                    VERIF_OUT=os.path.join(scratch, "out"))
        if jobs:
            cenv["VERIF_JOBS"] = jobs
        os.makedirs(os.path.join(scratch, "work"), exist_ok=True)
        for p in props:
            t0 = time.time()
            rc, out = sh([os.path.join(ROOT, "check"), p, "--tier", tier], cwd=ROOT, env=cenv)
            viol = re.findall(r"^VIOLATION property=(\S+) replay=(\S+)$", out, flags=re.M)
            entry = {"rc": rc, "wall_s": round(time.time() - t0, 1), "violations": len(viol),
                     "tail": out[-1500:] if rc != 0 else out[-300:]}
            if viol:
                ok = True
                first = []
                for (_, path) in viol[:2]:
                    rrc, rout = sh([os.path.join(ROOT, "check"), "replay", path], cwd=ROOT, env=cenv)
                    ok = ok and rrc == 1
                    try:
                        with open(path) as f:
                            b = json.load(f)
                        first.append({k: b.get(k) for k in ("class", "kind", "history", "expected", "observed",
                                                            "iter_mode", "first_difference", "declaration")})
                    except Exception:
                        pass
                entry["replays_reproduce"] = ok
                entry["first"] = first
            res["checks"][p] = entry
    finally:
        if not keep:
            shutil.rmtree(scratch, ignore_errors=True)
    print(json.dumps(res, indent=1, ensure_ascii=False))
    return 0


if __name__ == "__main__":
    sys.exit(main())
