/* LD_PRELOAD shim: the clock seam of EXPSIM's cross-process stage.
 * Every clock a Rust program can read through libc is shifted by VERIF_CLOCK_SKEW seconds
 * (read once). Used only for simulated compiler processes; never for the harness itself. */
#define _GNU_SOURCE
#include <dlfcn.h>
#include <stdlib.h>
#include <sys/time.h>
#include <time.h>

static long long skew_s(void) {
    static int init = 0;
    static long long skew = 0;
    if (!init) {
        const char *s = getenv("VERIF_CLOCK_SKEW");
        if (s) skew = atoll(s);
        init = 1;
    }
    return skew;
}

int clock_gettime(clockid_t id, struct timespec *ts) {
    static int (*real)(clockid_t, struct timespec *) = 0;
    if (!real) real = (int (*)(clockid_t, struct timespec *))dlsym(RTLD_NEXT, "clock_gettime");
    int r = real(id, ts);
    if (r == 0 && ts) ts->tv_sec += skew_s();
    return r;
}

int gettimeofday(struct timeval *tv, void *tz) {
    static int (*real)(struct timeval *, void *) = 0;
    if (!real) real = (int (*)(struct timeval *, void *))dlsym(RTLD_NEXT, "gettimeofday");
    int r = real(tv, tz);
    if (r == 0 && tv) tv->tv_sec += skew_s();
    return r;
}

time_t time(time_t *t) {
    static time_t (*real)(time_t *) = 0;
    if (!real) real = (time_t(*)(time_t *))dlsym(RTLD_NEXT, "time");
    time_t r = real(0) + (time_t)skew_s();
    if (t) *t = r;
    return r;
}
