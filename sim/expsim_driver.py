"""C17: EXPSIM (in-process expansion simulator) and EXPSIM-REAL (seeded rustc processes)."""
import hashlib
import json
import os
import re
import subprocess
import sys
import time

import corpusgen

SIM = os.path.dirname(os.path.abspath(__file__))
ROOT = os.path.dirname(SIM)
REPO = os.environ.get("VERIF_REPO", "/repo")
WORK = os.environ.get("VERIF_WORK", SIM)
OUT = os.environ.get("VERIF_OUT", ROOT)
TARGET = os.path.join(WORK, "target")
GEN = os.path.join(WORK, "gen")
JOBS = int(os.environ.get("VERIF_JOBS", "0")) or (os.cpu_count() or 4)
ENV = dict(os.environ, CARGO_NET_OFFLINE="true", CARGO_TERM_COLOR="never", RUST_BACKTRACE="0")
ENV.pop("RUSTFLAGS", None)

TIERS = {
    "quick": {"runs": 60_000, "huge": False, "real_procs": 8, "real_derives": 60},
    "thorough": {"runs": 2_000_000, "huge": True, "real_procs": 128, "real_derives": 400},
}
STRATS = ["sip", "const", "low_bits", "identity", "bit_reverse"]


def log(*a):
    print(*a, flush=True)


def harness_error(msg):
    log("HARNESS-ERROR: " + msg)
    sys.exit(2)


def shadow_manifest():
    """/repo/src built as an ordinary library: same package, same dependencies, no proc-macro flag"""
    with open(os.path.join(REPO, "Cargo.toml")) as f:
        s = f.read()
    if "proc-macro = true" not in s:
        harness_error("cannot derive the shadow manifest: no `proc-macro = true` in /repo/Cargo.toml")
    s = s.replace("proc-macro = true", 'path = "%s/src/lib.rs"' % REPO)
    s = re.sub(r"\[dev-dependencies\].*?(?=\n\[|\Z)", "", s, flags=re.S)
    s += "\n[workspace]\n"
    corpusgen.write_if_changed(os.path.join(GEN, "shadow", "Cargo.toml"), s)


def build_clock_shim():
    """the clock seam of the cross-process stage: an LD_PRELOAD library shifting every libc clock"""
    src = os.path.join(SIM, "clockskew", "clockskew.c")
    out = os.path.join(GEN, "clockskew", "libclockskew.so")
    os.makedirs(os.path.dirname(out), exist_ok=True)
    if os.path.exists(out) and os.path.getmtime(out) >= os.path.getmtime(src):
        return out
    for cc in ("cc", "gcc", "clang"):
        try:
            p = subprocess.run([cc, "-shared", "-fPIC", "-O1", "-o", out, src, "-ldl"], stdout=subprocess.PIPE,
                               stderr=subprocess.PIPE, text=True)
        except FileNotFoundError:
            continue
        if p.returncode == 0:
            return out
    return ""


def build():
    shadow_manifest()
    cdir = os.path.join(GEN, "expsim")
    corpusgen.write_if_changed(os.path.join(cdir, "Cargo.toml"), """[package]
name = "expsim"
version = "0.0.0"
edition = "2021"

[[bin]]
name = "expsim"
path = "%s/expsim/src/main.rs"

[dependencies]
enum-tools = { path = "%s/shadow", features = ["__verif_lib"] }
simcore = { path = "%s/simcore" }
proc-macro2 = "1.0.60"

[profile.release]
opt-level = 2
debug = false
incremental = false

[workspace]
""" % (SIM, GEN, SIM))
    lock = os.path.join(cdir, "Cargo.lock")
    if not os.path.exists(lock):
        with open(os.path.join(REPO, "Cargo.lock")) as f:
            data = f.read()
        with open(lock, "w") as f:
            f.write(data)
    p = subprocess.run(["cargo", "build", "--offline", "--release", "--target-dir", TARGET, "-j", str(JOBS)],
                       cwd=cdir, env=ENV, stdout=subprocess.PIPE, stderr=subprocess.PIPE,
                       text=True)
    if p.returncode != 0:
        harness_error("expsim does not build against the current /repo:\n" + p.stderr[-3000:])
    return os.path.join(TARGET, "release", "expsim")


def build_hooked_proc_macro():
    """the proc-macro itself, with the hasher seam and the dump (feature __verif)"""
    d = os.path.join(GEN, "expreal_pm")
    corpusgen.write_if_changed(os.path.join(d, "Cargo.toml"), """[package]
name = "expreal_pm"
version = "0.0.0"
edition = "2021"

[dependencies]
enum-tools = { path = "%s", features = ["__verif"] }

[workspace]
""" % REPO)
    corpusgen.write_if_changed(os.path.join(d, "src", "lib.rs"), "pub use enum_tools::EnumTools;\n")
    lock = os.path.join(d, "Cargo.lock")
    if not os.path.exists(lock):
        with open(os.path.join(REPO, "Cargo.lock")) as f:
            data = f.read()
        with open(lock, "w") as f:
            f.write(data)
    p = subprocess.run(["cargo", "build", "--offline", "--target-dir", TARGET, "--message-format=json",
                        "-j", str(JOBS)], cwd=d, env=ENV, stdout=subprocess.PIPE, stderr=subprocess.PIPE, text=True)
    if p.returncode != 0:
        harness_error("hooked proc-macro does not build:\n" + p.stderr[-3000:])
    so = None
    for line in p.stdout.splitlines():
        if not line.startswith("{"):
            continue
        m = json.loads(line)
        if m.get("reason") == "compiler-artifact" and m.get("target", {}).get("name") in ("enum_tools", "enum-tools"):
            if "__verif" in m.get("features", []):
                for fn in m.get("filenames", []):
                    if fn.endswith(".so"):
                        so = fn
    if not so:
        harness_error("could not locate the hooked proc-macro artifact")
    return so


def run_real(exe, so, seed, procs, derives, keep_dir=None):
    """returns (violation or None, coverage dict)"""
    d = keep_dir or os.path.join(GEN, "expreal")
    os.makedirs(d, exist_ok=True)
    p = subprocess.run([exe, "gen-real", "--seed", str(seed), "--count", str(derives)], env=ENV,
                       stdout=subprocess.PIPE, stderr=subprocess.PIPE, text=True)
    if p.returncode != 0:
        harness_error("gen-real failed: " + p.stderr[-500:])
    g = json.loads(p.stdout)
    src_path = os.path.join(d, "expreal.rs")
    with open(src_path, "w") as f:
        f.write(g["source"])
    expected = {}
    for e in g["index"]:
        expected[e["ident"]] = expected.get(e["ident"], 0) + 1
    plans = []
    z = seed
    for k in range(procs):
        z = (z * 6364136223846793005 + 1442695040888963407) & ((1 << 64) - 1)
        plans.append("%s:%d" % (STRATS[k % len(STRATS)], z >> 1))
    return compare_real(so, src_path, d, plans, expected, g)


def rustc_expand(so, src_path, d, k, plan):
    dump = os.path.join(d, "dump_%d.txt" % k)
    out = os.path.join(d, "out_%d" % k)
    os.makedirs(out, exist_ok=True)
    try:
        os.remove(dump)
    except OSError:
        pass
    env = dict(ENV, ENUM_TOOLS_VERIF_HASH=plan, ENUM_TOOLS_VERIF_DUMP=dump)
    # every process also gets its own working directory and cargo-like environment
    env.update({"CARGO_PKG_NAME": "pkg%d" % k, "CARGO_PKG_VERSION": "0.%d.0" % k, "CARGO_MANIFEST_DIR": out,
                "OUT_DIR": out, "PROFILE": ("debug", "release")[k % 2], "SOURCE_DATE_EPOCH": str(1_000_000 * k),
                "TZ": ("UTC", "Pacific/Kiritimati", "America/Los_Angeles")[k % 3]})
    cmd = ["rustc", "--edition", "2021", "--crate-type", "lib", "--crate-name", "expreal", "--emit=metadata",
           "--out-dir", out, "--extern", "enum_tools=" + so, "-L", "dependency=" + os.path.join(TARGET, "debug", "deps"),
           "--cap-lints", "allow", src_path]
    return dump, subprocess.Popen(cmd, env=env, cwd=out, stdout=subprocess.DEVNULL, stderr=subprocess.PIPE, text=True)


def compare_real(so, src_path, d, plans, expected, g):
    t0 = time.time()
    texts = {}      # ident -> (text, plan, occurrence)
    derives_seen = 0
    pending = list(enumerate(plans))
    violation = None
    while pending:
        batch, pending = pending[:JOBS], pending[JOBS:]
        procs = [(k, plan) + rustc_expand(so, src_path, d, k, plan) for (k, plan) in batch]
        for (k, plan, dump, p) in procs:
            _, err = p.communicate()
            if not os.path.exists(dump):
                harness_error("rustc process %d wrote no dump: %s" % (k, (err or "")[-1500:]))
            counts = {}
            with open(dump) as f:
                for line in f:
                    ident, _, text = line.rstrip("\n").partition("\t")
                    if ident not in expected:
                        continue  # fault declarations that happen to expand are not observed
                    counts[ident] = counts.get(ident, 0) + 1
                    derives_seen += 1
                    if ident not in texts:
                        texts[ident] = (text, plan, counts[ident])
                    elif texts[ident][0] != text and violation is None:
                        violation = {"ident": ident, "plan_a": texts[ident][1], "plan_b": plan,
                                     "text_a": texts[ident][0], "text_b": text}
            missing = [i for i in expected if counts.get(i, 0) != expected[i]]
            if missing:
                harness_error("rustc process %d (plan %s) expanded %s a different number of times than the crate "
                              "contains it (got %s, want %s); stderr tail: %s"
                              % (k, plan, missing[0], counts.get(missing[0], 0), expected[missing[0]],
                                 (err or "")[-800:]))
            os.remove(dump)
    cov = {"rustc_processes": len(plans), "derives_per_process": sum(expected.values()),
           "distinct_declarations": len(expected), "expansions_compared": derives_seen,
           "hash_plans": plans[:8] + (["..."] if len(plans) > 8 else []), "wall_s": round(time.time() - t0, 1)}
    return violation, cov


def first_diff(a, b):
    ta, tb = a.split(" "), b.split(" ")
    i = 0
    while i < len(ta) and i < len(tb) and ta[i] == tb[i]:
        i += 1
    return "token #%d: «%s» vs «%s»" % (i, " ".join(ta[max(0, i - 10):i + 10]), " ".join(tb[max(0, i - 10):i + 10]))


def write_replay(body):
    d = os.path.join(OUT, "replays", "C17")
    os.makedirs(d, exist_ok=True)
    blob = json.dumps(body, sort_keys=True, indent=1, ensure_ascii=False)
    h = hashlib.sha256(blob.encode()).hexdigest()[:12]
    p = os.path.join(d, "%s-%s.json" % (body["engine"], h))
    with open(p, "w") as f:
        f.write(blob + "\n")
    return p


RULE = ("one run = one simulated compiler process: 1-3 expansion threads (each with its own proc-macro-error "
        "thread-locals), a history of 2-40 derive invocations mixing copies of the observed declaration, other "
        "supported declarations and fault declarations (abort!, emit_error!-only, plain panic), a freshly drawn hash "
        "plan (5 strategies x 64-bit key) for every map the parser creates; oracle: every expansion of a declaration is "
        "byte-identical to its first expansion in the run (the first expansion of D* is made by a fresh thread under "
        "sip(0)). distinct = distinct (declaration, induced iteration order of the values map) pairs; non-trivial = "
        ">= 2 variants and induced order != sorted order (the sort had work to do)")


def check(tier, seed):
    import fcntl
    t0 = time.time()
    cfg = TIERS[tier]
    os.makedirs(GEN, exist_ok=True)
    lockf = open(os.path.join(WORK, ".lock"), "w")
    fcntl.flock(lockf, fcntl.LOCK_EX)
    exe = build()
    so = build_hooked_proc_macro()
    shim = build_clock_shim()
    fcntl.flock(lockf, fcntl.LOCK_SH)
    out_path = os.path.join(GEN, "expsim.out.%d.json" % os.getpid())
    p = subprocess.run([exe, "run", "--seed", str(seed), "--runs", str(cfg["runs"]), "--workers", str(JOBS),
                        "--huge", "1" if cfg["huge"] else "0", "--out", out_path],
                       env=dict(ENV, EXPSIM_CLOCKSKEW_LIB=shim),
                       stdout=subprocess.PIPE, stderr=subprocess.PIPE, text=True)
    if p.returncode not in (0, 1):
        harness_error("expsim died rc=%s: %s" % (p.returncode, p.stderr[-1500:]))
    with open(out_path) as f:
        data = json.load(f)
    os.remove(out_path)
    if data["supported_but_not_expanded"] and not data["violations"]:
        # a declaration the generator believes supported is refused: C10/C11/C13 territory, not a C17 verdict
        s = data["supported_but_not_expanded_samples"][0]
        harness_error("the derive refuses a declaration the generator believes supported (%s) — unclaimed "
                      "C10/C11 is implicated, no verdict on C17:\n%s" % (s["outcome"], s["src"][:1500]))
    lines = []
    nviol = 0
    for v in data["violations"]:
        nviol += 1
        body = dict(v, property="C17", engine="expsim", seed=seed, tier=tier)
        path = write_replay(body)
        lines.append("VIOLATION property=C17 replay=%s" % path)
        lines.append("  same declaration, different expansion (%s vs %s): %s"
                     % (v["expected_class"], v["observed_class"], v["first_difference"][:400]))
    real_cov = None
    if nviol == 0:
        rv, real_cov = run_real(exe, so, seed, cfg["real_procs"], cfg["real_derives"])
        if rv:
            nviol += 1
            with open(os.path.join(GEN, "expreal", "expreal.rs")) as f:
                source = f.read()
            body = {"property": "C17", "engine": "expreal", "seed": seed, "tier": tier, "ident": rv["ident"],
                    "plan_a": rv["plan_a"], "plan_b": rv["plan_b"], "first_difference": first_diff(rv["text_a"], rv["text_b"]),
                    "source": source}
            path = write_replay(body)
            lines.append("VIOLATION property=C17 replay=%s" % path)
            lines.append("  real rustc processes with hash plans %s / %s expand %s differently: %s"
                         % (rv["plan_a"], rv["plan_b"], rv["ident"], body["first_difference"][:400]))
    fcntl.flock(lockf, fcntl.LOCK_UN)
    wall = time.time() - t0
    zero = [k for k, v in data["fault_kinds_fired"].items() if v == 0]
    cov = {
        "evaluations": data["runs"],
        "distinct_nontrivial": data["distinct_nontrivial"],
        "rule": RULE,
        "samples": data["samples"],
        "exhaustive": False,
        "derive_invocations": data["invocations"],
        "expansions_compared_with_reference": data["expansions_compared"],
        "runs_per_hour": int(data["runs"] / max(data["wall_s"], 1e-6) * 3600),
        "seeds": {"base_seed": seed, "run_index_range": [0, data["runs"]]},
        "simulated_time": "none: the system has no clock; %d logical steps (derive invocations)" % data["invocations"],
        "fault_kinds_fired": data["fault_kinds_fired"],
        "outcome_classes": data["outcome_classes"],
        "hash_strategies_used": data["strategies"],
        "distinct_states": {"measure": "distinct (declaration, induced iteration order of the values map) pairs",
                            "count": data["distinct_induced_orders"]},
        "distinct_placements_of_observed_declaration": data["distinct_placements_of_observed"],
        "simulated_threads_per_run_histogram": data["threads_hist"],
        "largest_declaration_variants": data["max_variants"],
        "process_model": data["process_model"],
        "cross_process_runs": {"count": data["cross_process_runs"], "clock_shim": data["clock_shim"],
                               "what": "every 4th history re-executed in a second fresh process with shifted wall clock "
                                       "(LD_PRELOAD shim), other working directory and a cleared, re-drawn environment; "
                                       "expansions must be identical across the two processes"},
        "event_log_digest": data["digest"],
        "expsim_real": real_cov,
        "real_vs_stub": {
            "expsim": {"real": ["all of /repo/src (parser, generator, every feature)", "syn", "quote", "proc-macro-error"],
                       "stubbed": ["the compiler bridge (proc_macro2 in fallback mode)",
                                   "the 4-line #[proc_macro_derive] wrapper (replaced by the guarded __verif::expand)",
                                   "RandomState (replaced by the seam hasher: that is the point)"]},
            "expsim_real": {"real": ["everything, inside real rustc processes"],
                            "stubbed": ["RandomState only (seam hasher keyed from an environment variable)"]}},
        "zero_probes": zero,
    }
    assumptions = [
        "sampling, not proof: histories <= 41 invocations (1 process in 200: several hundred, over hundreds of distinct declarations), <= 3 threads, 5 hashing strategies x 64-bit keys",
        "per-process state other than the hash schedule is perturbed only in the cross-process stage: wall clock "
        "(through libc), cwd, environment; pid and address-space layout differ between any two processes anyway",
        "the induced-order reach measure assumes the values map is the map created after the feature map and one "
        "parameter map per feature entry (true on the unchanged tree); it is a measure only, not part of the oracle",
        "uncontrolled RandomState runs are not used to decide anything",
    ]
    d = os.path.join(OUT, "evidence")
    os.makedirs(d, exist_ok=True)
    with open(os.path.join(d, "C17.json"), "w") as f:
        json.dump({"property_id": "C17", "tier": tier, "seed": seed, "level": "exploration", "coverage": cov,
                   "assumptions": assumptions, "wall_s": round(wall, 3), "violations": nviol}, f, indent=1,
                  sort_keys=True, ensure_ascii=False)
        f.write("\n")
    log("C17 %s: %d simulated compiler processes, %d derive invocations, %d compared with a reference, %d distinct "
        "non-trivial (declaration, induced order) pairs; EXPSIM-REAL: %s; %.1fs"
        % (tier, data["runs"], data["invocations"], data["expansions_compared"], data["distinct_nontrivial"],
           ("%d rustc processes x %d derives" % (real_cov["rustc_processes"], real_cov["derives_per_process"]))
           if real_cov else "skipped", wall))
    for l in lines:
        log(l)
    sys.exit(1 if nviol else 0)


def replay(body, path):
    import fcntl
    os.makedirs(GEN, exist_ok=True)
    lockf = open(os.path.join(WORK, ".lock"), "w")
    fcntl.flock(lockf, fcntl.LOCK_EX)
    exe = build()
    if body["engine"] == "expreal":
        so = build_hooked_proc_macro()
        d = os.path.join(GEN, "expreal_replay")
        os.makedirs(d, exist_ok=True)
        src = os.path.join(d, "expreal.rs")
        with open(src, "w") as f:
            f.write(body["source"])
        texts = []
        for k, plan in enumerate([body["plan_a"], body["plan_b"]]):
            dump, p = rustc_expand(so, src, d, k, plan)
            p.communicate()
            t = None
            with open(dump) as f:
                for line in f:
                    ident, _, text = line.rstrip("\n").partition("\t")
                    if ident == body["ident"] and t is None:
                        t = text
            texts.append(t)
        if texts[0] != texts[1]:
            log("replay: %s" % first_diff(texts[0] or "", texts[1] or ""))
            log("VIOLATION property=C17 replay=%s" % path)
            sys.exit(1)
        log("replay: both processes now produce the same text")
        sys.exit(0)
    hist = os.path.join(GEN, "expsim.replay.%d.txt" % os.getpid())
    with open(hist, "w") as f:
        if body.get("perturbation"):
            f.write(body["perturbation"] + "\n")
        for inv in body["history"]:
            f.write("%d\t%s\t%s\t%s\t%s\n" % (inv["thread"], inv["strategy"], inv["hseed"],
                                             "-" if inv["decl"] is None else inv["decl"],
                                             inv["src"].replace("\\", "\\\\").replace("\n", "\\n")))
    p = subprocess.run([exe, "replay", "--file", hist], env=dict(ENV, EXPSIM_CLOCKSKEW_LIB=build_clock_shim()),
                       stdout=subprocess.PIPE, stderr=subprocess.PIPE, text=True)
    os.remove(hist)
    log(p.stdout.rstrip())
    if p.returncode == 1:
        log("VIOLATION property=C17 replay=%s" % path)
        sys.exit(1)
    if p.returncode != 0:
        harness_error("expsim replay: " + p.stderr[-500:])
    sys.exit(0)
