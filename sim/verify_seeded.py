#!/usr/bin/env python3
"""Confirm a sub-agent's property-breaking change independently, then file it under /verif/seeded/<id>/.

  sim/verify_seeded.py <worktree>/MUTANT <id> <property>

Steps (scratch clone of /repo under /var/tmp, removed afterwards):
  1. demo passes on the unchanged tree
  2. patch applies; the pinned test suite (everything except the demo) still passes
  3. demo fails with the patch
Writes patch.diff, the demonstration, notes.md and meta.json (what was run, what was observed).
"""
import json
import os
import re
import shutil
import subprocess
import sys


def sh(cmd, cwd=None, env=None):
    p = subprocess.run(cmd, cwd=cwd, env=env, stdout=subprocess.PIPE, stderr=subprocess.STDOUT, text=True)
    return p.returncode, p.stdout


def summarize(out):
    passed = sum(int(x) for x in re.findall(r"test result: \w+\. (\d+) passed", out))
    failed = sum(int(x) for x in re.findall(r"test result: \w+\. \d+ passed; (\d+) failed", out))
    return passed, failed


def main():
    src, mid, prop = os.path.abspath(sys.argv[1]), sys.argv[2], sys.argv[3]
    rel = ["--release"] if "--release-demo" in sys.argv else []   # the demonstration needs the release profile
    dest = os.path.join("/verif/seeded", mid)
    scratch = "/var/tmp/verif_seed_%s_%d" % (mid, os.getpid())
    repo = os.path.join(scratch, "repo")
    env = dict(os.environ, CARGO_NET_OFFLINE="true")
    meta = {"id": mid, "property": prop, "ran": []}
    os.makedirs(scratch)
    try:
        sh(["git", "clone", "-q", "/repo", repo])
        demos = [f for f in sorted(os.listdir(src)) if f.startswith("zz_") and f.endswith(".rs")]
        for f in sorted(os.listdir(src)):
            if os.path.isdir(os.path.join(src, f)):
                shutil.copytree(os.path.join(src, f), os.path.join(repo, "tests", f))
        for f in demos:
            shutil.copy(os.path.join(src, f), os.path.join(repo, "tests", f))
        demo_names = [f[:-3] for f in demos]
        targs = []
        for d in demo_names:
            targs += ["--test", d]
        rc, out = sh(["cargo", "test", "--offline"] + rel + targs, cwd=repo, env=env)
        p, f = summarize(out)
        meta["ran"].append({"cmd": "cargo test --offline " + " ".join(rel + targs) + "   # unchanged tree", "rc": rc,
                            "passed": p, "failed": f})
        meta["demo_passes_without_change"] = (rc == 0 and f == 0 and p > 0)
        rc, out = sh(["git", "apply", os.path.join(src, "patch.diff")], cwd=repo)
        meta["patch_applies"] = rc == 0
        if rc != 0:
            meta["error"] = out[-400:]
        else:
            # the pinned suite = every test target except the demonstration
            for d in demo_names:
                os.rename(os.path.join(repo, "tests", d + ".rs"), os.path.join(scratch, d + ".rs"))
            rc, out = sh(["cargo", "test", "--workspace", "--no-fail-fast", "--offline"], cwd=repo, env=env)
            p, f = summarize(out)
            meta["ran"].append({"cmd": "cargo test --workspace --no-fail-fast --offline   # with the change", "rc": rc,
                                "passed": p, "failed": f})
            meta["suite_passes_with_change"] = (rc == 0 and f == 0 and p >= 48)
            if rc != 0:
                meta["suite_tail"] = out[-1500:]
            for d in demo_names:
                os.rename(os.path.join(scratch, d + ".rs"), os.path.join(repo, "tests", d + ".rs"))
            rc, out = sh(["cargo", "test", "--offline", "--no-fail-fast"] + rel + targs, cwd=repo, env=env)
            p, f = summarize(out)
            meta["ran"].append({"cmd": "cargo test --offline " + " ".join(rel + targs) + "   # with the change", "rc": rc,
                                "passed": p, "failed": f, "tail": out[-600:]})
            meta["demo_fails_with_change"] = rc != 0
    finally:
        shutil.rmtree(scratch, ignore_errors=True)
    ok = all(meta.get(k) for k in ("demo_passes_without_change", "patch_applies", "suite_passes_with_change",
                                  "demo_fails_with_change"))
    meta["confirmed"] = ok
    if ok:
        os.makedirs(dest, exist_ok=True)
        for f in os.listdir(src):
            if os.path.isdir(os.path.join(src, f)):
                shutil.copytree(os.path.join(src, f), os.path.join(dest, f), dirs_exist_ok=True)
            else:
                shutil.copy(os.path.join(src, f), os.path.join(dest, f))
        with open(os.path.join(dest, "meta.json"), "w") as fh:
            json.dump(meta, fh, indent=1)
    print(json.dumps(meta, indent=1))
    return 0 if ok else 1


if __name__ == "__main__":
    sys.exit(main())
