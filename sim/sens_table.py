#!/usr/bin/env python3
"""Run sim/sensitivity.py over every patch under /verif/mutants and /verif/seeded (N at a time)
and render the detection table (markdown) + a JSON summary under /verif/sensitivity/.

  sim/sens_table.py run [--parallel 2] [--jobs 8] [--only substr]
  sim/sens_table.py table
"""
import glob
import json
import os
import subprocess
import sys
from concurrent.futures import ThreadPoolExecutor

ROOT = os.path.dirname(os.path.dirname(os.path.abspath(__file__)))
OUT = os.path.join(ROOT, "sensitivity")
PROPS = ["C02", "C06", "C07", "C08", "C17"]


def patches():
    v = []
    for p in sorted(glob.glob(os.path.join(ROOT, "mutants", "*.diff"))):
        v.append((os.path.basename(p)[:-5], p))
    for p in sorted(glob.glob(os.path.join(ROOT, "seeded", "*", "patch.diff"))):
        v.append((os.path.basename(os.path.dirname(p)), p))
    return v


def run_one(args):
    name, path, jobs = args
    out = os.path.join(OUT, name + ".json")
    extra = ["--props", os.environ["SENS_PROPS"]] if os.environ.get("SENS_PROPS") else []   # default: all five
    p = subprocess.run([sys.executable, os.path.join(ROOT, "sim", "sensitivity.py"), path, "--jobs", str(jobs)] + extra,
                       stdout=subprocess.PIPE, stderr=subprocess.PIPE, text=True)
    try:
        d = json.loads(p.stdout)
    except ValueError:
        d = {"error": (p.stdout + p.stderr)[-2000:]}
    # keep the summary small
    for k, v in d.get("checks", {}).items():
        v["tail"] = v.get("tail", "")[-400:]
        for f in v.get("first", []) or []:
            if f.get("declaration") and len(f["declaration"]) > 600:
                f["declaration"] = f["declaration"][:600] + "..."
            for key in ("expected", "observed", "history"):
                if isinstance(f.get(key), str) and len(f[key]) > 300:
                    f[key] = f[key][:300] + "..."
            if isinstance(f.get("history"), list):
                f["history"] = "(%d invocations)" % len(f["history"])
    d.pop("scratch", None)
    with open(out, "w") as fh:
        json.dump(d, fh, indent=1, ensure_ascii=False)
    return name


def cell(v):
    if v is None:
        return "–"
    if v["rc"] == 0:
        return "0"
    if v["rc"] == 1:
        return "**1**" if v.get("replays_reproduce") else "1 (replay does not reproduce)"
    return "exit %d" % v["rc"]


def table():
    rows = []
    for name, path in patches():
        f = os.path.join(OUT, name + ".json")
        if not os.path.exists(f):
            continue
        d = json.load(open(f))
        desc = ""
        txt = path[:-5] + ".txt"
        if os.path.exists(txt):
            desc = open(txt).read().strip()
        elif os.path.exists(os.path.join(os.path.dirname(path), "desc.txt")):
            desc = open(os.path.join(os.path.dirname(path), "desc.txt")).read().strip()
        else:
            meta = os.path.join(os.path.dirname(path), "meta.json")
            if os.path.exists(meta):
                desc = "sub-agent change against " + json.load(open(meta)).get("property", "?")
        t = d.get("tests", {})
        tests = "%d pass" % t.get("passed", 0) if d.get("tests_pass") else ("FAIL" if "tests" in d else "?")
        rows.append("| %s | %s | %s | %s |" % (name, desc.replace("|", "/")[:170], tests,
                                              " | ".join(cell(d.get("checks", {}).get(p)) for p in PROPS)))
    head = "| change | what it does | pinned tests | " + " | ".join(PROPS) + " |\n|---|---|---|" + "---|" * len(PROPS)
    return head + "\n" + "\n".join(rows)


def main():
    os.makedirs(OUT, exist_ok=True)
    cmd = sys.argv[1] if len(sys.argv) > 1 else "table"
    if cmd == "run":
        par = int(sys.argv[sys.argv.index("--parallel") + 1]) if "--parallel" in sys.argv else 2
        jobs = int(sys.argv[sys.argv.index("--jobs") + 1]) if "--jobs" in sys.argv else 8
        only = sys.argv[sys.argv.index("--only") + 1] if "--only" in sys.argv else ""
        todo = [(n, p, jobs) for (n, p) in patches() if only in n]
        with ThreadPoolExecutor(max_workers=par) as ex:
            for name in ex.map(run_one, todo):
                print("done", name, flush=True)
    md = table()
    with open(os.path.join(OUT, "TABLE.md"), "w") as f:
        f.write(md + "\n")
    print(md)


if __name__ == "__main__":
    main()
