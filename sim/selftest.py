"""Determinism of the harness itself: many seeds x two executions x worker counts {1, 16} x fresh
processes; event-log digests and every deterministic field must be identical. Also: the corpus
generator under two PYTHONHASHSEED values, and zero-probes (a fault kind that never fired).
A mismatch is exit 2 (harness broken), never a VIOLATION."""
import hashlib
import json
import os
import subprocess
import sys

SIM = os.path.dirname(os.path.abspath(__file__))
WORK = os.environ.get("VERIF_WORK", SIM)
ENV = dict(os.environ, CARGO_NET_OFFLINE="true", RUST_BACKTRACE="0")


def strip(d):
    d = dict(d)
    d.pop("wall_s", None)
    return json.dumps(d, sort_keys=True)


def main(base_seed):
    n_seeds = int(os.environ.get("SELFTEST_SEEDS", "10"))
    bad = []
    itersim = os.path.join(WORK, "target", "debug", "itersim_quick")
    expsim = os.path.join(WORK, "target", "release", "expsim")
    if not (os.path.exists(itersim) and os.path.exists(expsim)):
        print("selftest: run `./check setup` first")
        sys.exit(2)
    tmp = os.path.join(WORK, "gen", "selftest.%d.json" % os.getpid())
    total = 0
    zero = set()
    for k in range(n_seeds):
        seed = base_seed + 7919 * k
        for prop in ("C06", "C07", "C08", "C02"):
            outs = []
            for (workers, rep) in ((1, 0), (16, 0), (16, 1), (5, 0)):
                p = subprocess.run([itersim, "run", "--prop", prop, "--seed", str(seed), "--runs", "12000",
                                    "--workers", str(workers), "--pairs", "1" if prop == "C07" and k == 0 else "0",
                                    "--out", tmp], env=ENV, stdout=subprocess.PIPE, stderr=subprocess.PIPE, text=True)
                if p.returncode != 0:
                    print("selftest: itersim rc=%d (%s seed %d)" % (p.returncode, prop, seed))
                    sys.exit(2)
                with open(tmp) as f:
                    d = json.load(f)
                outs.append(strip(d))
                total += 1
                for name, val in d["fault_kinds_fired"].items():
                    if val == 0 and prop == "C06":
                        zero.add("itersim:" + name)
            if len(set(outs)) != 1:
                bad.append("itersim %s seed %d: outputs differ between executions/worker counts" % (prop, seed))
        outs = []
        for (workers, rep) in ((1, 0), (16, 0), (16, 1), (3, 0)):
            p = subprocess.run([expsim, "run", "--seed", str(seed), "--runs", "1500", "--workers", str(workers),
                                "--out", tmp], env=ENV, stdout=subprocess.PIPE, stderr=subprocess.PIPE, text=True)
            if p.returncode != 0:
                print("selftest: expsim rc=%d" % p.returncode)
                sys.exit(2)
            with open(tmp) as f:
                d = json.load(f)
            outs.append(strip(d))
            total += 1
        if len(set(outs)) != 1:
            bad.append("expsim seed %d: outputs differ between executions/worker counts" % seed)
    # all fault kinds of expsim must fire in a moderately sized batch
    p = subprocess.run([expsim, "run", "--seed", str(base_seed), "--runs", "6000", "--workers", "16", "--out", tmp],
                       env=ENV, stdout=subprocess.PIPE, stderr=subprocess.PIPE, text=True)
    with open(tmp) as f:
        d = json.load(f)
    os.remove(tmp)
    if len(d["fault_kinds_fired"]) < 43:
        zero.add("expsim: only %d of 43 fault kinds fired" % len(d["fault_kinds_fired"]))
    # corpus generator under two hash seeds, fresh interpreters
    digs = []
    for hs in ("0", "4242"):
        code = ("import sys, hashlib, json; sys.path.insert(0, %r); import corpusgen as g; "
                "s=g.plan_corpus(%d,'quick'); h=hashlib.sha256(); "
                "[h.update(g.render_module(x['name'],x['repr'],x['variants'],x['attrs'],x['config'],x['tags'],x.get('ord_reversed',False))[0].encode()) for x in s]; "
                "print(h.hexdigest())" % (SIM, base_seed))
        p = subprocess.run([sys.executable, "-c", code], env=dict(ENV, PYTHONHASHSEED=hs), stdout=subprocess.PIPE,
                           stderr=subprocess.PIPE, text=True)
        digs.append(p.stdout.strip())
    if len(set(digs)) != 1 or not digs[0]:
        bad.append("corpusgen: output depends on PYTHONHASHSEED (%s)" % digs)
    print("selftest: %d simulator executions compared over %d seeds; corpus digest %s" % (total, n_seeds, digs[0][:16]))
    for z in sorted(zero):
        print("selftest: ZERO-PROBE %s" % z)
    for b in bad:
        print("selftest: MISMATCH %s" % b)
    sys.exit(2 if (bad or zero) else 0)
