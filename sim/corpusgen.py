#!/usr/bin/env python3
"""Corpus generator for ITERSIM.

A corpus is a set of modules; a module is one (enum declaration, enum_tools configuration)
pair plus macro-free glue that puts the generated items behind simcore's object-safe
interface, plus the generator's ground truth (sorted discriminants and names).  The
simulator's model is built from that ground truth, never from anything the macro produced.

Everything is a pure function of (seed, tier): a hand-written xoshiro256** supplies all
randomness, and nothing iterates a dict/set whose order could vary.
"""
import json
import os

MASK = (1 << 64) - 1
I64_MIN = -(1 << 63)
I64_MAX = (1 << 63) - 1


class Rng:
    def __init__(self, seed, tag=0):
        z = (seed ^ (tag * 0x9E3779B97F4A7C15)) & MASK
        self.s = []
        for _ in range(4):
            z = (z + 0x9E3779B97F4A7C15) & MASK
            x = z
            x = ((x ^ (x >> 30)) * 0xBF58476D1CE4E5B9) & MASK
            x = ((x ^ (x >> 27)) * 0x94D049BB133111EB) & MASK
            self.s.append(x ^ (x >> 31))

    @staticmethod
    def _rotl(x, k):
        return ((x << k) | (x >> (64 - k))) & MASK

    def u64(self):
        s = self.s
        r = (self._rotl((s[1] * 5) & MASK, 7) * 9) & MASK
        t = (s[1] << 17) & MASK
        s[2] ^= s[0]
        s[3] ^= s[1]
        s[1] ^= s[2]
        s[0] ^= s[3]
        s[2] ^= t
        s[3] = self._rotl(s[3], 45)
        return r

    def below(self, n):
        return self.u64() % n

    def range(self, lo, hi):
        return lo + self.below(hi - lo + 1)

    def chance(self, num, den):
        return self.below(den) < num

    def pick(self, xs):
        return xs[self.below(len(xs))]

    def shuffle(self, xs):
        for i in range(len(xs) - 1, 0, -1):
            j = self.below(i + 1)
            xs[i], xs[j] = xs[j], xs[i]


REPRS = ["u8", "u16", "u32", "u64", "u128", "usize", "i8", "i16", "i32", "i64", "i128", "isize"]


def repr_bounds(r):
    """bounds of the repr type intersected with what enum-tools documents ([i64::MIN, i64::MAX]);
    i64::MIN itself is kept out (DESIGN §8: rejected by the derive; belongs to unclaimed C11)"""
    bits = {"u8": 8, "u16": 16, "u32": 32, "u64": 64, "u128": 128, "usize": 64,
            "i8": 8, "i16": 16, "i32": 32, "i64": 64, "i128": 128, "isize": 64}[r]
    if r.startswith("u"):
        lo, hi = 0, (1 << bits) - 1
    else:
        lo, hi = -(1 << (bits - 1)), (1 << (bits - 1)) - 1
    return max(lo, I64_MIN + 1), min(hi, I64_MAX), lo, hi


def signed(r):
    return r.startswith("i")


# ------------------------------------------------------------------------------------------
# shapes: each yields (tag list, sorted value list) for a repr, or None if the repr cannot hold it

def runs_to_values(runs):
    v = []
    for (a, b) in runs:
        v.extend(range(a, b + 1))
    return v


def catalogue_shapes(tier="quick"):
    """list of (name, fn(repr) -> sorted values or None, preferred reprs or None)"""
    S = []

    def add(name, fn, reprs=None):
        S.append((name, fn, reprs))

    add("single_pos", lambda r: [5])
    add("single_zero", lambda r: [0])
    add("single_type_min", lambda r: [repr_bounds(r)[0]] if signed(r) else None)
    add("single_type_max", lambda r: [repr_bounds(r)[1]])
    add("two_adjacent", lambda r: [3, 4])
    add("two_far", lambda r: [1, 100])
    add("gapless_at_0", lambda r: list(range(0, 5)))
    add("gapless_at_0_n7", lambda r: list(range(0, 7)))
    add("gapless_pos_min", lambda r: list(range(10, 16)))
    add("gapless_straddle_0", lambda r: list(range(-3, 4)) if signed(r) else None)
    add("gapless_negative", lambda r: list(range(-9, -3)) if signed(r) else None)
    add("gapless_touch_type_min", lambda r: list(range(repr_bounds(r)[0], repr_bounds(r)[0] + 6)))
    add("gapless_touch_type_max", lambda r: list(range(repr_bounds(r)[1] - 5, repr_bounds(r)[1] + 1)))
    add("gapless_full_u8", lambda r: list(range(0, 256)) if r == "u8" else None, ["u8"])
    add("gapless_full_i8", lambda r: list(range(-128, 128)) if r == "i8" else None, ["i8"])
    add("holes_two_runs", lambda r: [0, 1, 2, 10, 11])
    add("holes_many_runs", lambda r: runs_to_values([(0, 1), (4, 6), (9, 9), (12, 15), (20, 21), (30, 30)]))
    add("holes_singletons", lambda r: [0, 2, 4, 6, 8])
    add("holes_first_run_type_min",
        lambda r: [repr_bounds(r)[0], repr_bounds(r)[0] + 1, repr_bounds(r)[0] + 5, repr_bounds(r)[0] + 6])
    add("holes_last_run_type_max",
        lambda r: [repr_bounds(r)[1] - 9, repr_bounds(r)[1] - 8, repr_bounds(r)[1] - 1, repr_bounds(r)[1]])
    add("holes_min_and_max",
        lambda r: [repr_bounds(r)[0], repr_bounds(r)[0] + 1, 50, repr_bounds(r)[1] - 1, repr_bounds(r)[1]])
    add("holes_neg_later_run", lambda r: [-10, -5, -4, 3] if signed(r) else None)
    add("holes_neg_later_runs_many",
        lambda r: runs_to_values([(-20, -19), (-10, -8), (-3, -2), (4, 5)]) if signed(r) else None)
    add("holes_neg_only", lambda r: runs_to_values([(-30, -28), (-20, -20), (-9, -7)]) if signed(r) else None)
    add("holes_both_sides_of_0", lambda r: runs_to_values([(-6, -5), (-1, 1), (7, 9)]) if signed(r) else None)
    add("holes_small_for_inline", lambda r: [1, 3, 4])
    # exact spans (max - min) around the widths of machine words and narrow integers: an
    # implementation that switches strategy on the span (bitset, table, ...) is off by one right there
    for sp in (31, 32, 33, 63, 64, 65, 127, 128, 129, 255, 256, 257, 65535, 65536, 65537):
        def span_shape(r, sp=sp):
            lo, hi, _, _ = repr_bounds(r)
            base = -3 if signed(r) and sp < 200 else 0
            if base + sp > hi:
                return None
            return [base, base + 1, base + 3, base + sp // 2, base + sp - 2, base + sp - 1, base + sp]
        add("holes_span_%d" % sp, span_shape)
    # with-holes enums whose span is congruent to that of a gapless enum of the same size modulo a
    # narrower integer width (span = n-1 + 2^w): a gapless/holes decision, bound check or table size
    # computed in a narrower type takes them for gapless (seeded c02j)
    for (w, rs) in ((8, ["u16", "i16"]), (16, ["u32", "i32"]), (32, ["u64", "i64"])):
        add("holes_span_alias_2_%d" % w, lambda r, w=w: [0, 1, 2, 3 + (1 << w)], rs)
        add("holes_span_alias_mid_2_%d" % w, lambda r, w=w: [0, 1, 2 + (1 << w), 3 + (1 << w), 4 + (1 << w)], rs)
    psz = ["usize", "isize"]
    add("around_2_31_2_32",
        lambda r: [(1 << 31) - 1, 1 << 31, (1 << 31) + 1, (1 << 32) - 1, 1 << 32, (1 << 32) + 1] if r in psz else None, psz)
    add("gap_2_32_plus_1",
        lambda r: [1, 2, 2 + (1 << 32) + 1, 3 + (1 << 32) + 1, 4 + 2 * ((1 << 32) + 1) + (1 << 32)] if r in psz else None, psz)
    swide0 = ["i64", "i128", "isize"]
    add("holes_span_2_63_up", lambda r: [-2, -1, I64_MAX - 1, I64_MAX] if r in swide0 else None, swide0)
    add("holes_span_2_63_down", lambda r: [I64_MIN + 1, I64_MIN + 2, 1, 2] if r in swide0 else None, swide0)
    add("two_at_i64_extremes", lambda r: [I64_MIN + 1, I64_MAX] if r in swide0 else None, swide0)
    # more than 1024 runs (a run index or a scratch buffer sized for "ordinary" enums)
    add("holes_1100_singletons", lambda r: list(range(-1100, 1100, 2)) if r in ("i16", "i32", "i64") else None,
        ["i16", "i32", "i64"])
    add("holes_300_singletons", lambda r: list(range(-300, 300, 2)) if r in ("i16", "i32", "i64", "isize", "i128") else None,
        ["i16", "i32", "i64", "isize", "i128"])

    # index arithmetic at the edge of the repr: runs longer than half the type's range, and more
    # variants before a later run than the signed repr can count
    add("holes_long_run_i8", lambda r: [-120] + list(range(-100, 51)) + [60] if r == "i8" else None, ["i8"])
    add("holes_long_run_u8", lambda r: list(range(0, 250)) + [252] if r == "u8" else None, ["u8"])
    add("holes_offset_gt_i8_max", lambda r: list(range(-128, 11)) + list(range(20, 31)) if r == "i8" else None, ["i8"])
    add("holes_offset_gt_127_u8", lambda r: list(range(0, 200)) + list(range(210, 256)) if r == "u8" else None, ["u8"])
    add("holes_long_run_i16_small_span", lambda r: [-300] + list(range(-200, 100)) + [200, 201] if r == "i16" else None, ["i16"])

    if tier == "thorough":
        # the documented size limit (one module: rustc needs minutes for it)
        add("huge_u16_gapless_65534", lambda r: list(range(0, 65534)) if r == "u16" else None, ["u16"])

    def big(n, runs, start):
        def f(r):
            lo, hi, _, _ = repr_bounds(r)
            if hi - lo < n * 3 + abs(start):
                return None
            s = start if signed(r) else abs(start)
            v = []
            per = n // runs
            cur = s
            for k in range(runs):
                cnt = per if k < runs - 1 else n - per * (runs - 1)
                v.extend(range(cur, cur + cnt))
                cur += cnt + 3 + k
            return v
        return f

    # exact powers of two (and one more) as variant counts
    add("count_512_gapless", lambda r: list(range(-12, 500)) if r in ("i16", "i32") else None, ["i16", "i32"])
    add("count_1024_two_runs", lambda r: list(range(0, 1000)) + list(range(2000, 2024)) if r in ("u16", "i32", "u64") else None,
        ["u16", "i32", "u64"])
    add("count_1025_gapless", lambda r: list(range(-1000, 25)) if r in ("i16", "i64") else None, ["i16", "i64"])
    if tier == "thorough":
        add("count_4096_runs", lambda r: runs_to_values([(k * 300, k * 300 + 255) for k in range(16)]) if r in ("u16", "i32") else None,
            ["u16", "i32"])
        add("count_4097_gapless", lambda r: list(range(-4000, 97)) if r in ("i16", "i32") else None, ["i16", "i32"])
    add("big_257_gapless", big(257, 1, -128))
    add("big_300_three_runs", big(300, 3, -150))
    add("big_1000_ten_runs", big(1000, 10, -200))
    add("big_260_many_runs", big(260, 26, 0))

    def near(hi_fn, holes):
        def f(r):
            x = hi_fn(r)
            if x is None:
                return None
            if holes:
                return [x - 9, x - 8, x - 4, x - 1, x]
            return list(range(x - 3, x + 1))
        return f

    wide = ["i64", "u64", "i128", "u128", "isize", "usize"]
    add("near_i64_max_gapless", near(lambda r: I64_MAX if r in wide else None, False), wide)
    add("near_i64_max_holes", near(lambda r: I64_MAX if r in wide else None, True), wide)
    swide = ["i64", "i128", "isize"]
    add("near_i64_min_gapless",
        lambda r: list(range(I64_MIN + 1, I64_MIN + 5)) if r in swide else None, swide)
    add("near_i64_min_holes",
        lambda r: [I64_MIN + 1, I64_MIN + 2, I64_MIN + 6, I64_MIN + 9, I64_MIN + 10] if r in swide else None, swide)
    add("near_u32_max", near(lambda r: (1 << 32) - 1 if r == "u32" else None, True), ["u32"])
    add("near_u16_max", near(lambda r: (1 << 16) - 1 if r == "u16" else None, False), ["u16"])
    add("beyond_i32_in_wide",
        lambda r: [-(1 << 40), -(1 << 40) + 1, 0, (1 << 40), (1 << 40) + 1] if r in swide else None, swide)
    return S


def shape_tags(values, r, name):
    tags = [name]
    lo, hi, tlo, thi = repr_bounds(r)
    n = len(values)
    gapless = values[-1] - values[0] == n - 1
    tags.append("gapless" if gapless else "holes")
    if values[0] == tlo:
        tags.append("touches_type_min")
    if values[-1] == thi:
        tags.append("touches_type_max")
    if values[0] < 0:
        tags.append("negative")
    runs = 1
    later_neg = False
    for a, b in zip(values, values[1:]):
        if b != a + 1:
            runs += 1
            if b < 0:
                later_neg = True
    if later_neg:
        tags.append("neg_later_run")
    if n > 255:
        tags.append("n_gt_255")
    if n == 1:
        tags.append("single")
    tags.append("runs_%d" % runs if runs < 8 else "runs_8plus")
    return tags


def seeded_values(rng, r):
    lo, hi, tlo, thi = repr_bounds(r)
    n = rng.pick([1, 2, 3, 4, 5, 8, 13, 30, 60, 120, 300])
    span = hi - lo + 1
    if n > span:
        n = span
    # run structure
    gapless = rng.chance(2, 5)
    runs = []
    left = n
    while left > 0:
        if gapless:
            cnt = left
        else:
            cnt = min(left, rng.pick([1, 1, 2, 3, 5, 8, 20, 100]))
        runs.append(cnt)
        left -= cnt
    gaps = [rng.pick([1, 1, 2, 3, 7, 50, 1000]) for _ in runs[1:]]
    total = sum(runs) + sum(gaps)
    if total > span:
        gaps = [1 for _ in gaps]
        total = sum(runs) + sum(gaps)
        if total > span:
            runs = [n]
            gaps = []
            total = n
    anchor = rng.below(6)
    if anchor == 0:
        start = lo if lo == tlo else lo
    elif anchor == 1:
        start = hi - total + 1
    elif anchor == 2:
        start = 0
    elif anchor == 3:
        start = -1 - rng.below(max(1, min(total, 50)))
    elif anchor == 4:
        start = -total // 2
    else:
        start = rng.range(0, min(span - total, 1 << 20)) + (lo if rng.chance(1, 2) else 0)
    start = max(lo, min(start, hi - total + 1))
    v = []
    cur = start
    for k, cnt in enumerate(runs):
        v.extend(range(cur, cur + cnt))
        cur += cnt
        if k < len(gaps):
            cur += gaps[k]
    assert v[0] >= lo and v[-1] <= hi, (r, v[0], v[-1])
    return v


RENAME_POOL = ["long_name_" * 30, "", "a b", "ünïçødé", "quote\"q", "back\\slash", "{brace}", "V0", "v1",
               "with\nnewline", "中文", "  padded  ", "#", "r#type"]


def build_decl(rng, values, shuffle, renames):
    """values: sorted ints. Returns variants in declaration order:
    dict(ident, value, explicit, name)"""
    n = len(values)
    order = list(range(n))
    if shuffle == "full":
        rng.shuffle(order)
    elif shuffle == "blocks" and n >= 4:
        k = rng.range(1, n - 1)
        order = order[k:] + order[:k]
    elif shuffle == "reverse":
        order.reverse()
    variants = []
    prev = None
    for pos, si in enumerate(order):
        val = values[si]
        legal_implicit = (prev is None and val == 0) or (prev is not None and val == prev + 1)
        explicit = not (legal_implicit and rng.chance(3, 5))
        ident = "V%d" % pos
        if rng.chance(1, 60):
            ident = ["r#type", "r#match", "r#fn", "r#loop"][pos % 4] if pos < 4 else ident
        variants.append({"ident": ident, "value": val, "explicit": explicit, "name": None,
                         "spell": rng.below(12), "doc": rng.chance(1, 15)})
        prev = val
    if renames:
        for v in variants:
            if rng.chance(1, 4):
                choice = rng.below(len(RENAME_POOL) + 2)
                if choice < len(RENAME_POOL):
                    v["name"] = RENAME_POOL[choice]
                elif choice == len(RENAME_POOL):
                    v["name"] = rng.pick(variants)["ident"]  # another variant's identifier
                else:
                    o = rng.pick(variants)
                    v["name"] = o["name"] if o["name"] is not None else o["ident"]
    return variants


FLAG_FEATURES = ["Debug", "Display", "IntoStr", "next", "next_back", "try_from", "TryFrom", "into", "Into", "MIN", "MAX"]
STR_MODES = [None, "auto", "match", "table"]


def legal_iter_modes(gapless):
    return ["auto", "range", "next_and_back", "table", "table_inline"] if gapless else \
        ["auto", "next_and_back", "table", "table_inline"]


def draw_config(rng, gapless, iter_mode, force=None):
    """iter_mode: None (no iter) or a mode string"""
    c = {"iter": iter_mode, "range": False, "names": False, "as_str": None, "from_str": None, "FromStr": None,
         "flags": []}
    if iter_mode is not None and iter_mode != "table_inline":
        c["range"] = rng.chance(7, 10)
    c["names"] = rng.chance(6, 10)
    c["as_str"] = rng.pick(STR_MODES)
    c["from_str"] = rng.pick(STR_MODES)
    c["FromStr"] = rng.pick(STR_MODES)
    for f in FLAG_FEATURES:
        if rng.chance(1, 2):
            c["flags"].append(f)
    if force:
        c.update(force)
    if c["iter"] is None:
        c["range"] = False
        c["names"] = True
    if c["iter"] == "table_inline":
        c["range"] = False
    if force and force.get("_huge"):
        c["flags"] = ["try_from", "TryFrom", "MIN", "next", "next_back"]
    c.pop("_huge", None)
    # Debug/Display/IntoStr pull in as_str automatically; nothing to fix up
    return c


def config_attr_lines(rng, c):
    feats = []
    if c["iter"] is not None:
        feats.append("iter" if c["iter"] == "auto" and rng.chance(1, 2) else 'iter(mode = "%s")' % c["iter"])
    if c["range"]:
        feats.append("range")
    if c["names"]:
        feats.append("names")
    for k in ["as_str", "from_str", "FromStr"]:
        if c[k] is not None:
            feats.append(k if c[k] == "auto" and rng.chance(1, 2) else '%s(mode = "%s")' % (k, c[k]))
    feats.extend(c["flags"])
    rng.shuffle(feats)
    # split over 1..3 attributes
    k = rng.range(1, min(3, len(feats)))
    cuts = sorted(set([0, len(feats)] + [rng.range(1, len(feats)) for _ in range(k - 1)]))
    lines = []
    for a, b in zip(cuts, cuts[1:]):
        if feats[a:b]:
            lines.append("#[enum_tools(%s)]" % ", ".join(feats[a:b]))
    return lines


def spell_literal(value, kind, r):
    """the discriminant as a Rust literal: decimal mostly; hex / octal / binary, digit separators and type
    suffixes now and then (all spellings rustc and the derive accept)"""
    neg = value < 0
    m = -value if neg else value
    if kind == 0:
        lit = "0x%x" % m
    elif kind == 1:
        lit = "0x%X" % m
    elif kind == 2:
        lit = "0o%o" % m
    elif kind == 3 and m < (1 << 24):
        lit = "0b" + bin(m)[2:]
    elif kind == 4 and m >= 1000:
        d = str(m)
        lit = d[:-3] + "_" + d[-3:]
    elif kind == 5:
        lit = "%d%s" % (m, r)
    else:
        lit = str(m)
    return ("-" + lit) if neg else lit


def rust_str(s):
    out = ['"']
    for ch in s:
        o = ord(ch)
        if ch == '"':
            out.append('\\"')
        elif ch == "\\":
            out.append("\\\\")
        elif 0x20 <= o < 0x7f:
            out.append(ch)
        else:
            out.append("\\u{%x}" % o)
    out.append('"')
    return "".join(out)


def auto_iter_resolution(c, n, r, gapless):
    """what `auto` resolves to (mirrors the documentation, used only to *label* coverage)"""
    if c["iter"] != "auto":
        return c["iter"]
    if gapless:
        return "auto->range"
    table_enum = (c["from_str"] == "table") or (c["FromStr"] == "table")
    size = {"8": 1, "16": 2, "32": 4, "64": 8, "128": 16, "size": 4}[r[1:]]
    if table_enum:
        return "auto->table"
    if n * size <= 8 and not c["range"]:
        return "auto->table_inline"
    return "auto->next_and_back"


def render_module(name, r, variants, attr_lines, c, tags, ord_reversed=False):
    """returns (rust source, truth dict)"""
    srt = sorted(variants, key=lambda v: v["value"])
    n = len(srt)
    L = []
    A = L.append
    A("// generated by corpusgen.py -- do not edit")
    A("#![allow(dead_code, unused_imports, unreachable_patterns, non_camel_case_types, clippy::all)]")
    A("use enum_tools::EnumTools;")
    A("use simcore::dynit::BoxIter;")
    A("use simcore::module::{enum_value, Module};")
    A("")
    if ord_reversed:
        A("#[derive(Clone, Copy, EnumTools)]")
    else:
        A("#[derive(Clone, Copy, PartialEq, Eq, PartialOrd, Ord, EnumTools)]")
    for l in attr_lines:
        A(l)
    A("#[repr(%s)]" % r)
    A("pub enum E {")
    for v in variants:
        if v["name"] is not None:
            A("    #[enum_tools(rename = %s)]" % rust_str(v["name"]))
        if v.get("doc"):
            A("    /// a documented variant")
            A("    #[allow(dead_code)]")
        if v["explicit"]:
            A("    %s = %s," % (v["ident"], spell_literal(v["value"], v.get("spell", 9), r)))
        else:
            A("    %s," % v["ident"])
    A("}")
    A("")
    A("type R = %s;" % r)
    if ord_reversed:
        A("// hand-written traits: an order that is the REVERSE of discriminant order, and an equality that")
        A("// holds between any two variants (the derive requires Copy and nothing else of the enum)")
        A("impl ::core::cmp::PartialEq for E { fn eq(&self, _o: &Self) -> bool { true } }")
        A("impl ::core::cmp::Eq for E {}")
        A("impl ::core::cmp::Ord for E { fn cmp(&self, o: &Self) -> ::core::cmp::Ordering { (*o as R).cmp(&(*self as R)) } }")
        A("impl ::core::cmp::PartialOrd for E { fn partial_cmp(&self, o: &Self) -> Option<::core::cmp::Ordering> { Some(::core::cmp::Ord::cmp(self, o)) } }")
    A("const N: usize = %d;" % n)
    A("const _: () = assert!(::core::mem::size_of::<E>() == ::core::mem::size_of::<R>());")
    A("static ALL: [E; N] = [%s];" % ", ".join("E::" + v["ident"] for v in srt))
    A("static DISC: [i128; N] = [%s];" % ", ".join(str(v["value"]) for v in srt))
    names = [v["name"] if v["name"] is not None else v["ident"] for v in srt]
    A("static NAME: [&str; N] = [%s];" % ", ".join(rust_str(s) for s in names))
    A("")
    A("// observer 1: the raw bytes of a value handed out by generated code, before any cast touches it")
    A("#[inline(never)]")
    A("fn obs(e: E) -> i128 {")
    A("    let raw: R = unsafe { ::core::mem::transmute_copy::<E, R>(&e) };")
    A("    enum_value(raw as i128, &DISC, %s)" % rust_str(name))
    A("}")
    A("fn cast(i: usize) -> i128 { ALL[i] as R as i128 }")
    A("// harness side only: the variant with a given ground-truth discriminant (for closures that return items)")
    A("fn unobs(d: i128) -> E { ALL[DISC.binary_search(&d).expect(\"harness: not a ground-truth discriminant\")] }")
    mode = c["iter"] if c["iter"] is not None else "none"
    fields = {}
    if c["iter"] is not None:
        A("simcore::impl_dyn!(IterW, EIter, i128, obs, unobs);")
        A("fn new_iter() -> BoxIter<i128> { Box::new(IterW(E::iter())) }")
        fields["new_iter"] = "Some(new_iter)"
        if c["range"]:
            A("fn new_range(i: usize, j: usize) -> BoxIter<i128> { Box::new(IterW(E::range(ALL[i], ALL[j]))) }")
            fields["new_range"] = "Some(new_range)"
    if c["names"]:
        A("simcore::impl_dyn!(NamesW, ENames, &'static str, |s| s, |s| s);")
        A("fn new_names() -> BoxIter<&'static str> { Box::new(NamesW(E::names())) }")
        fields["new_names"] = "Some(new_names)"
    A("fn arg(sel: u8, v: i128) -> R { match sel { 1 => R::MIN, 2 => R::MAX, _ => v as R } }")
    fl = c["flags"]
    if "try_from" in fl:
        A("fn p_try_from(sel: u8, v: i128) -> Option<i128> { E::try_from(arg(sel, v)).map(obs) }")
        fields["try_from"] = "Some(p_try_from)"
    if "TryFrom" in fl:
        A("fn p_try_from_trait(sel: u8, v: i128) -> Option<i128> { <E as ::core::convert::TryFrom<R>>::try_from(arg(sel, v)).ok().map(obs) }")
        fields["try_from_trait"] = "Some(p_try_from_trait)"
    if c["as_str"] is not None:
        A("fn p_as_str(i: usize) -> &'static str { E::as_str(ALL[i]) }")
        fields["as_str"] = "Some(p_as_str)"
    if c["from_str"] is not None:
        A("fn p_from_str(s: &str) -> Option<i128> { E::from_str(s).map(obs) }")
        fields["from_str"] = "Some(p_from_str)"
    if c["FromStr"] is not None:
        A("fn p_from_str_trait(s: &str) -> Option<i128> { <E as ::core::str::FromStr>::from_str(s).ok().map(obs) }")
        fields["from_str_trait"] = "Some(p_from_str_trait)"
    if "next" in fl:
        A("fn p_next(i: usize) -> Option<i128> { E::next(ALL[i]).map(obs) }")
        fields["next"] = "Some(p_next)"
    if "next_back" in fl:
        A("fn p_next_back(i: usize) -> Option<i128> { E::next_back(ALL[i]).map(obs) }")
        fields["next_back"] = "Some(p_next_back)"
    if "MIN" in fl:
        A("fn p_min() -> i128 { obs(E::MIN) }")
        fields["min"] = "Some(p_min)"
    if "MAX" in fl:
        A("fn p_max() -> i128 { obs(E::MAX) }")
        fields["max"] = "Some(p_max)"
    A("")
    gapless = srt[-1]["value"] - srt[0]["value"] == n - 1
    label = auto_iter_resolution(c, n, r, gapless) if c["iter"] is not None else "none"
    A("pub static MODULE: Module = Module {")
    A("    name: %s," % rust_str(name))
    A("    repr: %s," % rust_str(r))
    A("    iter_mode: %s," % rust_str(label))
    A("    shape: %s," % rust_str(",".join(tags)))
    A("    config: %s," % rust_str(" ".join(attr_lines)))
    A("    ord_reversed: %s," % ("true" if ord_reversed else "false"))
    A("    disc: &DISC,")
    A("    names: &NAME,")
    A("    cast,")
    for k in ["new_iter", "new_range", "new_names", "try_from", "try_from_trait", "as_str", "from_str",
              "from_str_trait", "next", "next_back", "min", "max"]:
        A("    %s: %s," % (k, fields.get(k, "None")))
    A("};")
    truth = {
        "name": name, "repr": r, "attrs": attr_lines, "config": c, "iter_mode": label, "shape": tags,
        "variants": variants, "ord_reversed": ord_reversed,
        "sorted": [[v["ident"], v["value"], nm] for v, nm in zip(srt, names)],
    }
    return "\n".join(L) + "\n", truth


def plan_corpus(seed, tier, shard=0):
    """returns list of module specs: dict(name, repr, variants, attrs, config, tags)"""
    specs = []
    rng = Rng(seed, 0xC0 + shard)
    shapes = catalogue_shapes(tier)
    rot = 0

    def add_module(r, values, shape_name, c_rng, iter_mode, force=None, shuffle=None, renames=None):
        gapless = values[-1] - values[0] == len(values) - 1
        if shuffle is None:
            shuffle = c_rng.pick(["none", "full", "blocks", "reverse", "full"])
        if renames is None:
            renames = c_rng.chance(1, 2)
        variants = build_decl(c_rng, values, shuffle, renames)
        c = draw_config(c_rng, gapless, iter_mode, force)
        attrs = config_attr_lines(c_rng, c)
        tags = shape_tags(values, r, shape_name)
        name = "m_%04d" % len(specs)
        specs.append({"name": name, "repr": r, "variants": variants, "attrs": attrs, "config": c, "tags": tags,
                      "ord_reversed": c_rng.chance(1, 6)})

    def configs_for(values, r, full):
        gapless = values[-1] - values[0] == len(values) - 1
        modes = legal_iter_modes(gapless)
        out = []
        if len(values) > 5000:
            # compile time (minutes): one fixed configuration, no string feature in match mode
            out.append(("next_and_back", {"as_str": "table", "range": True, "names": True, "from_str": None, "FromStr": None,
                                          "_huge": True}))
            return out
        for m in modes:
            if m == "table_inline" and len(values) > 300:
                continue
            out.append((m, None))
        if not gapless:
            # the three other resolutions of `auto`
            out.append(("auto", {"from_str": "table", "range": True}))                        # -> table
            out.append(("auto", {"from_str": "match", "FromStr": None, "range": True}))       # -> next_and_back
            out.append(("auto", {"from_str": None, "FromStr": "match", "range": False}))      # -> table_inline if small
        if full:
            out.append((None, None))  # names only
            # as_str in table mode shares the offset table with range(): make sure it is exercised with range
            out.append((modes[-2] if gapless else "table", {"as_str": "table", "range": True, "names": True}))
            out.append(("next_and_back", {"as_str": "table", "range": True, "names": True}))
        return out

    # ---- catalogue: independent of the seed except for co-features / order / renames
    crng = Rng(20260926, 0xCA7 + shard)  # fixed: the quick tier never depends on luck
    for (sname, fn, pref) in shapes:
        cands = pref if pref else REPRS
        ok = [r for r in cands if fn(r) is not None]
        if not ok:
            continue
        # every shape on 2 reprs (thorough: 4), rotating through the list; the span family on 1 (2)
        k = 2 if tier == "quick" else 4
        if sname.startswith("holes_span_") and (sname[11:].isdigit() or sname[11:].startswith("alias")):
            k = 1 if tier == "quick" else 2
        chosen = []
        for i in range(len(ok)):
            r = ok[(rot + i * 5) % len(ok)]
            if r not in chosen:
                chosen.append(r)
            if len(chosen) >= k:
                break
        rot += 1
        for ri, r in enumerate(chosen):
            values = fn(r)
            lo, hi, _, _ = repr_bounds(r)
            if values[0] < lo or values[-1] > hi:
                continue
            big = len(values) > 200
            for (m, force) in configs_for(values, r, full=(ri == 0)):
                if big and tier == "quick" and ri > 0:
                    continue
                add_module(r, values, sname, crng, m, force)
    # ---- seeded shapes
    n_seeded = 40 if tier == "quick" else 160
    for i in range(n_seeded):
        r = REPRS[(i + rng.below(3)) % len(REPRS)]
        values = seeded_values(rng, r)
        gapless = values[-1] - values[0] == len(values) - 1
        modes = legal_iter_modes(gapless)
        k = rng.range(1, 3)
        for _ in range(k):
            m = rng.pick(modes + [None])
            if m == "table_inline" and len(values) > 300:
                m = "table"
            add_module(r, values, "seeded", rng, m)
    return specs


def write_if_changed(path, text):
    try:
        with open(path, "r", encoding="utf-8") as f:
            if f.read() == text:
                return False
    except FileNotFoundError:
        pass
    os.makedirs(os.path.dirname(path), exist_ok=True)
    tmp = path + ".tmp"
    with open(tmp, "w", encoding="utf-8") as f:
        f.write(text)
    os.replace(tmp, path)
    return True


PROFILE = """
[profile.dev]
opt-level = 1
debug = false
debug-assertions = true
overflow-checks = false
incremental = false
codegen-units = 16

[profile.ovf]
inherits = "dev"
overflow-checks = true

[profile.release]
opt-level = 3
debug = false
debug-assertions = false
overflow-checks = false
incremental = false
codegen-units = 16
"""


def emit_corpus(specs, out_dir, simcore_path, repo_path, n_shards, lock_src, tag="quick", exclude=()):
    """writes a cargo workspace: <out_dir>/{Cargo.toml, src/main.rs, s<k>/...}; returns truth list"""
    truths = []
    shards = [[] for _ in range(n_shards)]
    # balance by estimated cost (variant count), deterministic greedy
    cost = [0] * n_shards
    for sp in sorted(specs, key=lambda s: (-len(s["variants"]), s["name"])):
        k = cost.index(min(cost))
        shards[k].append(sp)
        cost[k] += 30 + len(sp["variants"])
    wanted = set()

    def w(rel, text):
        wanted.add(rel)
        write_if_changed(os.path.join(out_dir, rel), text)

    deps = []
    for k, sh in enumerate(shards):
        sh.sort(key=lambda s: s["name"])
        mods = []
        for sp in sh:
            if sp["name"] in exclude:
                continue
            src, truth = render_module(sp["name"], sp["repr"], sp["variants"], sp["attrs"], sp["config"], sp["tags"],
                                       sp.get("ord_reversed", False))
            truths.append(truth)
            w("s%d/src/%s.rs" % (k, sp["name"]), src)
            mods.append(sp["name"])
        lib = "".join("pub mod %s;\n" % m for m in mods)
        lib += "pub static MODULES: &[&simcore::module::Module] = &[%s];\n" % ", ".join("&%s::MODULE" % m for m in mods)
        w("s%d/src/lib.rs" % k, lib)
        w("s%d/Cargo.toml" % k, """[package]
name = "corpus_%s_s%d"
version = "0.0.0"
edition = "2021"

[dependencies]
simcore = { path = "%s" }
enum-tools = { path = "%s" }
""" % (tag, k, simcore_path, repo_path))
        deps.append('corpus_%s_s%d = { path = "s%d" }' % (tag, k, k))
    main = "fn main() {\n    let mut v: Vec<&'static simcore::module::Module> = Vec::new();\n"
    for k in range(n_shards):
        main += "    v.extend_from_slice(corpus_%s_s%d::MODULES);\n" % (tag, k)
    main += "    v.sort_by_key(|m| m.name);\n    simcore::driver::main(Box::leak(v.into_boxed_slice()))\n}\n"
    w("src/main.rs", main)
    w("Cargo.toml", """[package]
name = "itersim_%s"
version = "0.0.0"
edition = "2021"

[dependencies]
simcore = { path = "%s" }
%s

[workspace]
members = [%s]
%s""" % (tag, simcore_path, "\n".join(deps), ", ".join('"s%d"' % k for k in range(n_shards)), PROFILE))
    lock = os.path.join(out_dir, "Cargo.lock")
    if not os.path.exists(lock):
        with open(lock_src) as f:
            data = f.read()
        with open(lock, "w") as f:
            f.write(data)
    # remove stale module files
    for k in range(n_shards):
        d = os.path.join(out_dir, "s%d" % k, "src")
        for fn in sorted(os.listdir(d)):
            if ("s%d/src/%s" % (k, fn)) not in wanted:
                os.remove(os.path.join(d, fn))
    truths.sort(key=lambda t: t["name"])
    write_if_changed(os.path.join(out_dir, "corpus.json"), json.dumps(truths, indent=0, sort_keys=True))
    return truths


if __name__ == "__main__":
    import sys
    seed = int(sys.argv[1]) if len(sys.argv) > 1 else 20260926
    tier = sys.argv[2] if len(sys.argv) > 2 else "quick"
    specs = plan_corpus(seed, tier)
    print(len(specs), "modules;", sum(len(s["variants"]) for s in specs), "variants")
    from collections import Counter
    print(Counter(s["config"]["iter"] for s in specs))
