use enum_tools::__verif::{expand, set_hash_plan, Outcome, Strategy};
fn main() {
    let src = r#"#[derive(Clone, Copy, EnumTools)] #[enum_tools(as_str, iter, range, names, next, try_from)] #[repr(i8)] pub enum E { A = -3, B = 4, C = 5, D }"#;
    set_hash_plan(Some((Strategy::Sip, 1)));
    let a = expand(src.parse().unwrap());
    set_hash_plan(Some((Strategy::Const, 7)));
    let b = expand(src.parse().unwrap());
    println!("{}", a == b);
    if let Outcome::Expanded(t) = &a { println!("{}", &t[..200]); }
    for bad in [
        r#"#[enum_tools(iter)] pub enum E { A }"#,
        r#"#[repr(u8)] #[enum_tools(bogus)] pub enum E { A }"#,
        r#"#[repr(u8)] #[enum_tools(iter(name = "1 bad"))] pub enum E { A }"#,
        r#"struct"#,
    ] {
        println!("{:?}", expand(bad.parse().unwrap()));
    }
    println!("{}", expand(src.parse().unwrap()) == a);
}
