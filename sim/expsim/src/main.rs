//! EXPSIM — the expansion simulator (C17).
//!
//! One run = one simulated compiler process: 1..=3 expansion threads, each with its own
//! proc-macro-error thread-locals, and a history of derive invocations (copies of the
//! observed declaration D*, other supported declarations, fault declarations). Every
//! invocation gets a freshly drawn hash plan for every map the parser creates. Oracle:
//! byte equality of the expansion text of a declaration with its reference expansion.
//!
//!   run    --seed S --runs N [--from A] [--workers W] [--huge 0|1] [--out FILE]
//!   replay --file FILE            (history file written by a failing run)
//!   gen-real --seed S --count M   (prints the source of an EXPSIM-REAL crate and its index)
//!   expand --strategy s --hseed n (reads a declaration on stdin, prints the outcome)

mod gen;

use enum_tools::__verif::{expand, set_hash_plan, HashMap as SimMap, Outcome, SimBuildHasher, Strategy};
use simcore::json::J;
use simcore::rng::{tag, Rng};
use std::collections::{BTreeMap, HashSet};
use std::sync::atomic::{AtomicBool, AtomicU64, Ordering};
use std::sync::mpsc::{channel, Receiver, Sender};
use std::sync::Mutex;
use std::time::Instant;

const STRATEGIES: [(Strategy, &str); 5] = [
    (Strategy::Sip, "sip"),
    (Strategy::Const, "const"),
    (Strategy::LowBits, "low_bits"),
    (Strategy::Identity, "identity"),
    (Strategy::BitReverse, "bit_reverse"),
];

fn strat_name(s: Strategy) -> &'static str {
    STRATEGIES.iter().find(|(x, _)| *x == s).unwrap().1
}

fn arg<'a>(args: &'a [String], name: &str) -> Option<&'a str> {
    args.iter()
        .position(|a| a == name)
        .and_then(|i| args.get(i + 1))
        .map(|s| s.as_str())
}

fn die(msg: &str) -> ! {
    eprintln!("expsim: harness error: {}", msg);
    std::process::exit(2)
}

fn fnv(bytes: &[u8]) -> u64 {
    let mut h = 0xcbf2_9ce4_8422_2325u64;
    for b in bytes {
        h ^= *b as u64;
        h = h.wrapping_mul(0x100_0000_01b3);
    }
    h
}

fn mix(mut x: u64) -> u64 {
    simcore::rng::splitmix(&mut x)
}

#[derive(Clone, Debug)]
struct Invocation {
    /// index into the run's declaration table; None for a fault declaration
    decl: Option<usize>,
    fault_tag: &'static str,
    src: String,
    thread: usize,
    strategy: Strategy,
    hseed: u64,
}

fn outcome_class(o: &Outcome) -> &'static str {
    match o {
        Outcome::Expanded(_) => "expanded",
        Outcome::ParseError(_) => "parse_error",
        Outcome::Aborted => "aborted",
        Outcome::Rejected => "rejected",
        Outcome::Panicked(_) => "panicked",
    }
}

// ------------------------------------------------------------------------------------------
// simulated expansion threads: real OS threads, strict hand-off (never two runnable)

enum Msg {
    Expand(String, Strategy, u64),
}

struct SimThread {
    tx: Sender<Msg>,
    rx: Receiver<Outcome>,
}

fn spawn_sim_thread() -> SimThread {
    let (tx, jrx) = channel::<Msg>();
    let (otx, rx) = channel::<Outcome>();
    std::thread::Builder::new()
        .stack_size(64 << 20)
        .spawn(move || {
            for m in jrx {
                match m {
                    Msg::Expand(src, strategy, hseed) => {
                        let o = match src.parse::<proc_macro2::TokenStream>() {
                            Ok(ts) => {
                                set_hash_plan(Some((strategy, hseed)));
                                expand(ts)
                            }
                            Err(e) => Outcome::ParseError(format!("lex: {}", e)),
                        };
                        if otx.send(o).is_err() {
                            break;
                        }
                    }
                }
            }
        })
        .expect("spawn sim thread");
    SimThread { tx, rx }
}

impl SimThread {
    fn expand(&self, src: &str, strategy: Strategy, hseed: u64) -> Outcome {
        self.tx
            .send(Msg::Expand(src.to_string(), strategy, hseed))
            .expect("sim thread alive");
        self.rx.recv().expect("sim thread answered")
    }
}

/// executes a history on fresh simulated threads; returns the outcomes in order
fn execute(history: &[Invocation]) -> Vec<Outcome> {
    let nthreads = history.iter().map(|i| i.thread).max().map(|t| t + 1).unwrap_or(1);
    let threads: Vec<SimThread> = (0..nthreads).map(|_| spawn_sim_thread()).collect();
    history
        .iter()
        .map(|inv| threads[inv.thread].expand(&inv.src, inv.strategy, inv.hseed))
        .collect()
}

// ------------------------------------------------------------------------------------------

struct RunPlan {
    decls: Vec<gen::Decl>,
    history: Vec<Invocation>,
}

fn plan_run(seed: u64, idx: u64, huge: bool) -> RunPlan {
    let mut rng = Rng::stream(seed, tag("expsim"), idx);
    let nthreads = match rng.below(10) {
        0..=5 => 1,
        6..=8 => 2,
        _ => 3,
    };
    let span = if rng.chance(1, 4) { 39 } else { 10 };
    let n_inv = 2 + rng.below(span) as usize;
    let mut n_other = rng.below(3) as usize;
    // one process in two hundred is long-lived: hundreds of derives over hundreds of DIFFERENT small
    // declarations (a crate with many enums), so that per-process counters or caches of limited width
    // or capacity get the chance to wrap or evict
    let long_lived = rng.chance(1, 200);
    if long_lived {
        n_other = 265 + rng.below(120) as usize;
    }
    let mut decls = Vec::new();
    if long_lived {
        decls.push(gen::supported_capped(&mut rng, "D0", false, 40));
    } else {
        decls.push(gen::supported(&mut rng, "D0", huge));
    }
    // sometimes every declaration of the process carries the same identifier (same-named enums in
    // different modules of one crate): output must depend on the declaration, not on its name
    let same_ident = rng.chance(1, 3);
    for k in 0..n_other {
        let ident = if same_ident { "D0".to_string() } else { format!("D{}", k + 1) };
        if long_lived {
            decls.push(gen::supported_capped(&mut rng, &ident, false, 12));
        } else {
            decls.push(gen::supported(&mut rng, &ident, false));
        }
    }
    // very large declarations: keep the history short
    let big = decls.iter().map(|d| d.n).max().unwrap_or(0);
    let n_inv = if big > 20000 {
        n_inv.min(3)
    } else if big > 1000 {
        n_inv.min(8)
    } else {
        n_inv
    };
    let fault_pct = *rng.pick(&[0u64, 10, 30, 60]);
    let mut history = Vec::with_capacity(n_inv + 1);
    // the reference expansion of D*: first thing a fresh thread does, plan sip(0)
    history.push(Invocation {
        decl: Some(0),
        fault_tag: "",
        src: decls[0].src.clone(),
        thread: 0,
        strategy: Strategy::Sip,
        hseed: 0,
    });
    if long_lived {
        for d in 1..decls.len() {
            let thread = rng.below(nthreads) as usize;
            history.push(Invocation {
                decl: Some(d),
                fault_tag: "",
                src: decls[d].src.clone(),
                thread,
                strategy: STRATEGIES[rng.below(5) as usize].0,
                hseed: rng.next_u64(),
            });
            if rng.chance(1, 6) {
                // the observed declaration, or an earlier one, again
                let again = if rng.chance(1, 2) { 0 } else { rng.below(d as u64 + 1) as usize };
                let thread = rng.below(nthreads) as usize;
                history.push(Invocation {
                    decl: Some(again),
                    fault_tag: "",
                    src: decls[again].src.clone(),
                    thread,
                    strategy: STRATEGIES[rng.below(5) as usize].0,
                    hseed: rng.next_u64(),
                });
            }
        }
    }
    for _ in 0..n_inv {
        let thread = rng.below(nthreads) as usize;
        let strategy = STRATEGIES[rng.below(5) as usize].0;
        let hseed = rng.next_u64();
        if rng.below(100) < fault_pct {
            let (t, src) = gen::fault(&mut rng, false);
            history.push(Invocation {
                decl: None,
                fault_tag: t,
                src,
                thread,
                strategy,
                hseed,
            });
        } else {
            let d = if rng.chance(3, 5) {
                0
            } else {
                rng.below(decls.len() as u64) as usize
            };
            history.push(Invocation {
                decl: Some(d),
                fault_tag: "",
                src: decls[d].src.clone(),
                thread,
                strategy,
                hseed,
            });
        }
    }
    RunPlan { decls, history }
}

/// the iteration order the chosen plan induces on the `values` map of this invocation,
/// recomputed harness-side with the same hasher state (the values map is the map created
/// after the feature map and one parameter map per feature entry)
fn induced_order(d: &gen::Decl, strategy: Strategy, hseed: u64) -> Vec<i64> {
    let state = SimBuildHasher::planned(strategy, hseed, 1 + d.feature_entries as u64);
    let mut m: SimMap<i64, ()> = SimMap::with_state(state);
    for v in &d.values {
        m.insert(*v, ());
    }
    m.iter().map(|(k, _)| *k).collect()
}

#[derive(Clone)]
struct Mismatch {
    /// index in the history of the reference expansion and of the differing one
    at: usize,
    reference_at: usize,
    decl: usize,
}

fn find_mismatch<O: PartialEq>(history: &[Invocation], outcomes: &[O]) -> Option<Mismatch> {
    let mut first: BTreeMap<usize, usize> = BTreeMap::new();
    for (i, inv) in history.iter().enumerate() {
        if let Some(d) = inv.decl {
            match first.get(&d) {
                None => {
                    first.insert(d, i);
                }
                Some(&r) => {
                    if outcomes[i] != outcomes[r] {
                        return Some(Mismatch {
                            at: i,
                            reference_at: r,
                            decl: d,
                        });
                    }
                }
            }
        }
    }
    None
}

/// what a child process reports about one invocation: enough to decide byte equality
#[derive(Clone, Debug, PartialEq, Eq)]
struct Dig {
    class: String,
    len: usize,
    h1: u64,
    h2: u64,
}

fn digest_of(o: &Outcome) -> Dig {
    let t = outcome_text(o);
    let mut h2 = 0x9E37_79B9_7F4A_7C15u64;
    for b in t.bytes().rev() {
        h2 = (h2 ^ b as u64).wrapping_mul(0x100_0000_01b3).rotate_left(5);
    }
    Dig {
        class: outcome_class(o).to_string(),
        len: t.len(),
        h1: fnv(t.as_bytes()),
        h2,
    }
}

fn history_lines(h: &[Invocation]) -> String {
    let mut s = String::new();
    for inv in h {
        s.push_str(&format!(
            "{}\t{}\t{}\t{}\t{}\n",
            inv.thread,
            strat_name(inv.strategy),
            inv.hseed,
            match inv.decl {
                Some(d) => d.to_string(),
                None => "-".to_string(),
            },
            inv.src.replace('\\', "\\\\").replace('\n', "\\n")
        ));
    }
    s
}

fn unescape(s: &str) -> String {
    let mut out = String::with_capacity(s.len());
    let mut it = s.chars();
    while let Some(c) = it.next() {
        if c == '\\' {
            match it.next() {
                Some('n') => out.push('\n'),
                Some('\\') => out.push('\\'),
                Some(o) => {
                    out.push('\\');
                    out.push(o)
                }
                None => out.push('\\'),
            }
        } else {
            out.push(c);
        }
    }
    out
}

fn parse_history(text: &str) -> Vec<Invocation> {
    let mut h = Vec::new();
    for line in text.lines() {
        if line.is_empty() {
            continue;
        }
        let f: Vec<&str> = line.splitn(5, '\t').collect();
        if f.len() != 5 {
            die("malformed history line");
        }
        h.push(Invocation {
            thread: f[0].parse().unwrap_or_else(|_| die("thread")),
            strategy: Strategy::parse(f[1]).unwrap_or_else(|| die("strategy")),
            hseed: f[2].parse().unwrap_or_else(|_| die("hseed")),
            decl: if f[3] == "-" {
                None
            } else {
                Some(f[3].parse().unwrap_or_else(|_| die("decl")))
            },
            fault_tag: "",
            src: unescape(f[4]),
        });
    }
    h
}

/// One simulated compiler process = one real, fresh OS process: process-wide state (statics,
/// lazily initialised tables, caches) starts pristine in every run, so a run is a pure function of
/// its history and a failure replays exactly from the history alone.
fn execute_in_child(exe: &std::path::Path, history: &[Invocation]) -> Result<Vec<Dig>, String> {
    execute_in_child_env(exe, history, None)
}

/// Everything per-process that is not the hash schedule: wall clock (shifted through an
/// LD_PRELOAD shim), working directory, environment. (The pid and the address-space layout
/// differ between any two processes anyway.)
#[derive(Clone, Debug)]
struct Perturb {
    skew_s: i64,
    cwd: &'static str,
    env: Vec<(String, String)>,
}

fn draw_perturb(rng: &mut Rng) -> Perturb {
    let skew_s = match rng.below(4) {
        0 => 86_400 * (1 + rng.below(40) as i64),
        1 => -(86_400 * 365 * (1 + rng.below(30) as i64)),
        2 => 86_400 * 365 * (1 + rng.below(30) as i64),
        _ => 1 + rng.below(3600) as i64,
    };
    let cwd = *rng.pick(&["/", "/tmp", "/usr", "/var/tmp"]);
    let mut env = Vec::new();
    for (k, vals) in [
        ("HOME", &["/nonexistent", "/root", ""][..]),
        ("USER", &["nobody", "builder"][..]),
        ("LANG", &["C", "tr_TR.UTF-8", "de_DE.UTF-8"][..]),
        ("TZ", &["UTC", "Pacific/Kiritimati", "America/Los_Angeles"][..]),
        ("CARGO_PKG_NAME", &["a", "some-other-crate"][..]),
        ("CARGO_PKG_VERSION", &["0.0.1", "9.9.9"][..]),
        ("CARGO_MANIFEST_DIR", &["/x", "/y/z"][..]),
        ("OUT_DIR", &["/o1", "/o2"][..]),
        ("PROFILE", &["debug", "release"][..]),
        ("RUSTFLAGS", &["", "-C opt-level=3"][..]),
        ("SOURCE_DATE_EPOCH", &["0", "1700000000"][..]),
        ("HOSTNAME", &["a", "b"][..]),
        ("RUST_LOG", &["trace", "off"][..]),
    ] {
        if rng.chance(2, 3) {
            env.push((k.to_string(), rng.pick(vals).to_string()));
        }
    }
    Perturb { skew_s, cwd, env }
}

fn perturb_text(p: &Perturb) -> String {
    let mut s = format!("#perturb\t{}\t{}", p.skew_s, p.cwd);
    for (k, v) in &p.env {
        s.push_str(&format!("\t{}={}", k, v));
    }
    s
}

fn parse_perturb(line: &str) -> Option<Perturb> {
    let f: Vec<&str> = line.split('\t').collect();
    if f.len() < 3 || f[0] != "#perturb" {
        return None;
    }
    let cwd: &'static str = match f[2] {
        "/tmp" => "/tmp",
        "/usr" => "/usr",
        "/var/tmp" => "/var/tmp",
        _ => "/",
    };
    Some(Perturb {
        skew_s: f[1].parse().ok()?,
        cwd,
        env: f[3..]
            .iter()
            .filter_map(|kv| kv.split_once('=').map(|(k, v)| (k.to_string(), v.to_string())))
            .collect(),
    })
}

fn preload_lib() -> Option<String> {
    std::env::var("EXPSIM_CLOCKSKEW_LIB").ok().filter(|s| !s.is_empty())
}

fn execute_in_child_env(
    exe: &std::path::Path,
    history: &[Invocation],
    perturb: Option<&Perturb>,
) -> Result<Vec<Dig>, String> {
    use std::io::Write;
    use std::process::{Command, Stdio};
    let mut cmd = Command::new(exe);
    cmd.arg("child");
    if let Some(p) = perturb {
        cmd.env_clear();
        cmd.current_dir(p.cwd);
        for (k, v) in &p.env {
            cmd.env(k, v);
        }
        if let Some(lib) = preload_lib() {
            cmd.env("LD_PRELOAD", lib);
            cmd.env("VERIF_CLOCK_SKEW", p.skew_s.to_string());
        }
    }
    let mut child = cmd
        .stdin(Stdio::piped())
        .stdout(Stdio::piped())
        .stderr(Stdio::null())
        .spawn()
        .map_err(|e| format!("spawn: {}", e))?;
    let text = history_lines(history);
    let mut stdin = child.stdin.take().unwrap();
    let writer = std::thread::scope(|s| {
        let w = s.spawn(move || {
            let _ = stdin.write_all(text.as_bytes());
        });
        let out = child.wait_with_output();
        let _ = w.join();
        out
    });
    let out = writer.map_err(|e| format!("wait: {}", e))?;
    if !out.status.success() {
        return Err(format!("child exited with {:?}", out.status));
    }
    let mut v = Vec::with_capacity(history.len());
    for line in String::from_utf8_lossy(&out.stdout).lines() {
        let f: Vec<&str> = line.split('\t').collect();
        if f.len() != 4 {
            return Err(format!("malformed child line {:?}", line));
        }
        v.push(Dig {
            class: f[0].to_string(),
            len: f[1].parse().map_err(|_| "len")?,
            h1: u64::from_str_radix(f[2], 16).map_err(|_| "h1")?,
            h2: u64::from_str_radix(f[3], 16).map_err(|_| "h2")?,
        });
    }
    if v.len() != history.len() {
        return Err(format!("child answered {} of {} invocations", v.len(), history.len()));
    }
    Ok(v)
}

fn child_cmd() -> ! {
    use std::io::Read;
    let mut text = String::new();
    std::io::stdin().read_to_string(&mut text).unwrap_or_else(|_| die("stdin"));
    let h = parse_history(&text);
    let o = execute(&h);
    let mut out = String::new();
    for x in &o {
        let d = digest_of(x);
        out.push_str(&format!("{}\t{}\t{:016x}\t{:016x}\n", d.class, d.len, d.h1, d.h2));
    }
    print!("{}", out);
    std::process::exit(0)
}

fn outcome_text(o: &Outcome) -> String {
    match o {
        Outcome::Expanded(t) => t.clone(),
        other => format!("<{:?}>", other),
    }
}

fn first_difference(a: &str, b: &str) -> String {
    let ta: Vec<&str> = a.split(' ').collect();
    let tb: Vec<&str> = b.split(' ').collect();
    let mut i = 0;
    while i < ta.len() && i < tb.len() && ta[i] == tb[i] {
        i += 1;
    }
    let ctx = |t: &Vec<&str>| {
        let lo = i.saturating_sub(12);
        let hi = (i + 12).min(t.len());
        t[lo..hi].join(" ")
    };
    format!("token #{}: expected «{}» observed «{}»", i, ctx(&ta), ctx(&tb))
}

/// minimise: drop history entries, collapse threads, replace plans by sip(0) where the
/// difference survives. Every candidate is executed in a fresh process.
fn shrink(exe: &std::path::Path, history: &[Invocation]) -> (Vec<Invocation>, u32) {
    let mut attempts = 0u32;
    let mut best: Vec<Invocation> = history.to_vec();
    let fails = |h: &[Invocation], attempts: &mut u32| -> bool {
        *attempts += 1;
        match execute_in_child(exe, h) {
            Ok(o) => find_mismatch(h, &o).is_some(),
            Err(_) => false,
        }
    };
    // truncate after the mismatch
    match execute_in_child(exe, &best) {
        Ok(o) => match find_mismatch(&best, &o) {
            Some(m) => best.truncate(m.at + 1),
            None => return (best, attempts),
        },
        Err(_) => return (best, attempts),
    }
    let mut chunk = (best.len() / 2).max(1);
    loop {
        let mut i = 0;
        let mut progressed = false;
        while i < best.len() && best.len() > 2 {
            let end = (i + chunk).min(best.len());
            let mut cand = Vec::new();
            cand.extend_from_slice(&best[..i]);
            cand.extend_from_slice(&best[end..]);
            if cand.len() >= 2 && fails(&cand, &mut attempts) {
                best = cand;
                progressed = true;
            } else {
                i = end;
            }
        }
        if attempts > 300 || best.len() <= 2 || (chunk == 1 && !progressed) {
            break;
        }
        if !progressed {
            chunk = (chunk / 2).max(1);
        }
        chunk = chunk.min(best.len()).max(1);
    }
    // one thread
    if best.iter().any(|i| i.thread != 0) {
        let cand: Vec<Invocation> = best
            .iter()
            .map(|i| Invocation {
                thread: 0,
                ..i.clone()
            })
            .collect();
        if fails(&cand, &mut attempts) {
            best = cand;
        }
    }
    // simplest plans
    for k in 0..best.len() {
        if best[k].strategy != Strategy::Sip || best[k].hseed != 0 {
            let mut cand = best.clone();
            cand[k].strategy = Strategy::Sip;
            cand[k].hseed = 0;
            if fails(&cand, &mut attempts) {
                best = cand;
            }
        }
    }
    (best, attempts)
}

fn history_json(h: &[Invocation]) -> J {
    J::Arr(
        h.iter()
            .map(|i| {
                J::obj(vec![
                    ("decl", i.decl.map(|d| J::Int(d as i128)).unwrap_or(J::Null)),
                    ("fault", J::s(i.fault_tag)),
                    ("thread", J::Int(i.thread as i128)),
                    ("strategy", J::s(strat_name(i.strategy))),
                    ("hseed", J::s(i.hseed.to_string())),
                    ("src", J::s(i.src.clone())),
                ])
            })
            .collect(),
    )
}

#[derive(Default)]
struct Acc {
    runs: u64,
    invocations: u64,
    expansions_compared: u64,
    digest: u64,
    nontrivial: Vec<u64>,
    orders: HashSet<u64>,
    placements: HashSet<u64>,
    faults: BTreeMap<&'static str, u64>,
    outcome_classes: BTreeMap<&'static str, u64>,
    strategies: BTreeMap<&'static str, u64>,
    threads_hist: [u64; 4],
    unexpected_reject_of_supported: u64,
    max_variants: usize,
    cross_runs: u64,
}

fn run_cmd(args: &[String]) -> ! {
    let t0 = Instant::now();
    let seed: u64 = arg(args, "--seed").and_then(|s| s.parse().ok()).unwrap_or_else(|| die("--seed"));
    let runs: u64 = arg(args, "--runs").and_then(|s| s.parse().ok()).unwrap_or_else(|| die("--runs"));
    let from: u64 = arg(args, "--from").and_then(|s| s.parse().ok()).unwrap_or(0);
    let workers: usize = arg(args, "--workers").and_then(|s| s.parse().ok()).unwrap_or(1);
    let huge = arg(args, "--huge").map(|s| s == "1").unwrap_or(false);
    let next = AtomicU64::new(from);
    let end = from + runs;
    let stop = AtomicBool::new(false);
    let accs: Mutex<Vec<Acc>> = Mutex::new(Vec::new());
    let found: Mutex<Vec<J>> = Mutex::new(Vec::new());
    let samples: Mutex<BTreeMap<u64, J>> = Mutex::new(BTreeMap::new());
    let rejected_supported: Mutex<Vec<J>> = Mutex::new(Vec::new());
    let child_failures: Mutex<Vec<String>> = Mutex::new(Vec::new());
    let inproc = arg(args, "--inproc").map(|s| s == "1").unwrap_or(false);
    let cross_every: u64 = arg(args, "--cross-every").and_then(|s| s.parse().ok()).unwrap_or(4);
    let exe = std::env::current_exe().unwrap_or_else(|_| die("current_exe"));

    let work = || {
        let mut acc = Acc::default();
        loop {
            if stop.load(Ordering::SeqCst) {
                break;
            }
            let a = next.fetch_add(16, Ordering::SeqCst);
            if a >= end {
                break;
            }
            for idx in a..(a + 16).min(end) {
                let plan = plan_run(seed, idx, huge);
                let outcomes: Vec<Dig> = if inproc {
                    execute(&plan.history).iter().map(digest_of).collect()
                } else {
                    match execute_in_child(&exe, &plan.history) {
                        Ok(o) => o,
                        Err(e) => {
                            child_failures.lock().unwrap().push(format!("run {}: {}", idx, e));
                            stop.store(true, Ordering::SeqCst);
                            break;
                        }
                    }
                };
                // cross-process stage: the same history in a second fresh process with another clock,
                // working directory and environment must give the same expansions
                if !inproc && cross_every > 0 && idx % cross_every == 0 {
                    let mut prng = Rng::stream(seed, tag("expsim-perturb"), idx);
                    let pert = draw_perturb(&mut prng);
                    match execute_in_child_env(&exe, &plan.history, Some(&pert)) {
                        Ok(o2) => {
                            acc.cross_runs += 1;
                            let diff = plan
                                .history
                                .iter()
                                .enumerate()
                                .find(|(i, inv)| inv.decl.is_some() && outcomes[*i] != o2[*i])
                                .map(|(i, _)| i);
                            if let Some(at) = diff {
                                let mut f = found.lock().unwrap();
                                if f.len() < 3 {
                                    // minimal reproduction: the differing invocation alone, if it still differs
                                    let single = vec![plan.history[at].clone()];
                                    let alone = match (
                                        execute_in_child(&exe, &single),
                                        execute_in_child_env(&exe, &single, Some(&pert)),
                                    ) {
                                        (Ok(a), Ok(b)) => a != b,
                                        _ => false,
                                    };
                                    let hist: Vec<Invocation> = if alone {
                                        single
                                    } else {
                                        plan.history[..=at].to_vec()
                                    };
                                    f.push(J::obj(vec![
                                        ("run_index", J::Int(idx as i128)),
                                        ("kind", J::s("cross_process")),
                                        ("declaration", J::s(plan.history[at].src.clone())),
                                        ("history", history_json(&hist)),
                                        ("perturbation", J::s(perturb_text(&pert))),
                                        ("differs_at", J::Int((hist.len() - 1) as i128)),
                                        ("reference_at", J::Int((hist.len() - 1) as i128)),
                                        ("first_difference", J::s(format!(
                                            "the same invocation in two fresh processes: {} {} bytes {:016x} vs {} {} bytes {:016x}",
                                            outcomes[at].class, outcomes[at].len, outcomes[at].h1, o2[at].class, o2[at].len, o2[at].h1
                                        ))),
                                        ("expected_class", J::s(outcomes[at].class.clone())),
                                        ("observed_class", J::s(o2[at].class.clone())),
                                        ("shrink_attempts", J::Int(2)),
                                    ]));
                                }
                                if f.len() >= 3 {
                                    stop.store(true, Ordering::SeqCst);
                                }
                            }
                        }
                        Err(e) => {
                            child_failures.lock().unwrap().push(format!("run {} (perturbed): {}", idx, e));
                            stop.store(true, Ordering::SeqCst);
                            break;
                        }
                    }
                }
                acc.runs += 1;
                acc.invocations += plan.history.len() as u64;
                let nthreads = plan.history.iter().map(|i| i.thread).max().unwrap_or(0) + 1;
                acc.threads_hist[nthreads.min(3)] += 1;
                let mut rd = fnv(plan.decls[0].src.as_bytes());
                let mismatch = find_mismatch(&plan.history, &outcomes);
                for (pos, (inv, o)) in plan.history.iter().zip(outcomes.iter()).enumerate() {
                    *acc.outcome_classes.entry(class_static(&o.class)).or_default() += 1;
                    *acc.strategies.entry(strat_name(inv.strategy)).or_default() += 1;
                    rd = mix(rd ^ o.h1 ^ inv.hseed);
                    match inv.decl {
                        None => {
                            *acc.faults.entry(inv.fault_tag).or_default() += 1;
                        }
                        Some(d) => {
                            let decl = &plan.decls[d];
                            acc.max_variants = acc.max_variants.max(decl.n);
                            if pos > 0 {
                                acc.expansions_compared += 1;
                            }
                            // refused on every schedule of this run: the generator's idea of "supported"
                            // is wrong (C10/C11 territory). Refused on some schedules only is a mismatch
                            // and is reported as such below.
                            if o.class != "expanded" && mismatch.is_none() {
                                acc.unexpected_reject_of_supported += 1;
                                let mut r = rejected_supported.lock().unwrap();
                                if r.len() < 5 {
                                    r.push(J::obj(vec![
                                        ("run_index", J::Int(idx as i128)),
                                        ("outcome", J::s(o.class.clone())),
                                        ("src", J::s(decl.src.clone())),
                                    ]));
                                }
                            }
                            let order = induced_order(decl, inv.strategy, inv.hseed);
                            let mut od = fnv(decl.src.as_bytes());
                            for v in &order {
                                od = mix(od ^ (*v as u64));
                            }
                            acc.orders.insert(od);
                            let sorted = order.windows(2).all(|w| w[0] < w[1]);
                            if decl.n >= 2 && !sorted {
                                acc.nontrivial.push(od);
                            }
                            if d == 0 {
                                acc.placements
                                    .insert(((inv.thread as u64) << 32) | pos as u64);
                            }
                        }
                    }
                }
                acc.digest = acc.digest.wrapping_add(mix(idx ^ rd));
                if idx - from < 2 {
                    samples.lock().unwrap().insert(
                        idx,
                        J::obj(vec![
                            ("run_index", J::Int(idx as i128)),
                            ("observed_declaration", J::s(plan.decls[0].src.clone())),
                            (
                                "history",
                                J::Arr(
                                    plan.history
                                        .iter()
                                        .zip(outcomes.iter())
                                        .map(|(i, o)| {
                                            J::obj(vec![
                                                ("thread", J::Int(i.thread as i128)),
                                                ("plan", J::s(format!("{}:{}", strat_name(i.strategy), i.hseed))),
                                                (
                                                    "what",
                                                    J::s(match i.decl {
                                                        Some(d) => format!("D{}", d),
                                                        None => i.fault_tag.to_string(),
                                                    }),
                                                ),
                                                ("outcome", J::s(o.class.clone())),
                                                ("text_bytes", J::Int(o.len as i128)),
                                                ("text_digest", J::s(format!("{:016x}", o.h1))),
                                            ])
                                        })
                                        .collect(),
                                ),
                            ),
                        ]),
                    );
                }
                if let Some(m) = mismatch {
                    let mut f = found.lock().unwrap();
                    if f.len() < 3 {
                        let (min, attempts) = shrink(&exe, &plan.history);
                        // describe the minimised failure from a fresh process
                        let (mm, diff, ec, oc) = describe_in_child(&exe, &min).unwrap_or((
                            m.clone(),
                            "(could not be re-described in a fresh process)".to_string(),
                            outcomes[m.reference_at].class.clone(),
                            outcomes[m.at].class.clone(),
                        ));
                        f.push(J::obj(vec![
                            ("run_index", J::Int(idx as i128)),
                            ("declaration", J::s(plan.decls[m.decl].src.clone())),
                            ("history", history_json(&min)),
                            ("history_len_before_minimisation", J::Int(plan.history.len() as i128)),
                            ("reference_at", J::Int(mm.reference_at as i128)),
                            ("differs_at", J::Int(mm.at as i128)),
                            ("first_difference", J::s(diff)),
                            ("expected_class", J::s(ec)),
                            ("observed_class", J::s(oc)),
                            ("shrink_attempts", J::Int(attempts as i128)),
                        ]));
                    }
                    if f.len() >= 3 {
                        stop.store(true, Ordering::SeqCst);
                    }
                }
            }
        }
        accs.lock().unwrap().push(acc);
    };
    if workers <= 1 {
        work();
    } else {
        std::thread::scope(|s| {
            for _ in 0..workers {
                s.spawn(&work);
            }
        });
    }
    let mut t = Acc::default();
    for a in accs.into_inner().unwrap() {
        t.runs += a.runs;
        t.invocations += a.invocations;
        t.expansions_compared += a.expansions_compared;
        t.digest = t.digest.wrapping_add(a.digest);
        t.nontrivial.extend(a.nontrivial);
        t.orders.extend(a.orders);
        t.placements.extend(a.placements);
        for (k, v) in a.faults {
            *t.faults.entry(k).or_default() += v;
        }
        for (k, v) in a.outcome_classes {
            *t.outcome_classes.entry(k).or_default() += v;
        }
        for (k, v) in a.strategies {
            *t.strategies.entry(k).or_default() += v;
        }
        for k in 0..4 {
            t.threads_hist[k] += a.threads_hist[k];
        }
        t.unexpected_reject_of_supported += a.unexpected_reject_of_supported;
        t.max_variants = t.max_variants.max(a.max_variants);
        t.cross_runs += a.cross_runs;
    }
    t.nontrivial.sort_unstable();
    t.nontrivial.dedup();
    let mapj = |m: &BTreeMap<&'static str, u64>| {
        J::Obj(m.iter().map(|(k, v)| (k.to_string(), J::Int(*v as i128))).collect())
    };
    let found = found.into_inner().unwrap();
    let cf = child_failures.into_inner().unwrap();
    if !cf.is_empty() {
        die(&format!("a simulated compiler process died: {}", cf[0]));
    }
    let j = J::obj(vec![
        ("process_model", J::s(if inproc { "in-process (debug only)" } else { "one fresh OS process per simulated compiler process" })),
        ("seed", J::Int(seed as i128)),
        ("from", J::Int(from as i128)),
        ("runs", J::Int(t.runs as i128)),
        ("invocations", J::Int(t.invocations as i128)),
        ("expansions_compared", J::Int(t.expansions_compared as i128)),
        ("digest", J::s(format!("{:016x}", t.digest))),
        ("distinct_nontrivial", J::Int(t.nontrivial.len() as i128)),
        ("distinct_induced_orders", J::Int(t.orders.len() as i128)),
        ("distinct_placements_of_observed", J::Int(t.placements.len() as i128)),
        ("fault_kinds_fired", mapj(&t.faults)),
        ("outcome_classes", mapj(&t.outcome_classes)),
        ("strategies", mapj(&t.strategies)),
        ("threads_hist", J::Arr(t.threads_hist.iter().map(|x| J::Int(*x as i128)).collect())),
        ("supported_but_not_expanded", J::Int(t.unexpected_reject_of_supported as i128)),
        ("supported_but_not_expanded_samples", J::Arr(rejected_supported.into_inner().unwrap())),
        ("max_variants", J::Int(t.max_variants as i128)),
        ("cross_process_runs", J::Int(t.cross_runs as i128)),
        ("clock_shim", J::s(preload_lib().unwrap_or_else(|| "absent: clock not perturbed".to_string()))),
        ("wall_s", J::Num(t0.elapsed().as_secs_f64())),
        ("samples", J::Arr(samples.into_inner().unwrap().into_values().collect())),
        ("violations", J::Arr(found.clone())),
    ]);
    let text = j.render();
    match arg(args, "--out") {
        Some(p) => std::fs::write(p, &text).unwrap_or_else(|_| die("cannot write --out")),
        None => println!("{}", text),
    }
    std::process::exit(if found.is_empty() { 0 } else { 1 })
}

fn class_static(c: &str) -> &'static str {
    match c {
        "expanded" => "expanded",
        "parse_error" => "parse_error",
        "aborted" => "aborted",
        "rejected" => "rejected",
        _ => "panicked",
    }
}

/// runs `replay` on the history in a fresh process and parses its verdict line
fn describe_in_child(exe: &std::path::Path, h: &[Invocation]) -> Option<(Mismatch, String, String, String)> {
    use std::io::Write;
    use std::process::{Command, Stdio};
    let mut child = Command::new(exe)
        .args(["replay", "--file", "-"])
        .stdin(Stdio::piped())
        .stdout(Stdio::piped())
        .stderr(Stdio::null())
        .spawn()
        .ok()?;
    let text = history_lines(h);
    let mut stdin = child.stdin.take().unwrap();
    let out = std::thread::scope(|s| {
        let w = s.spawn(move || {
            let _ = stdin.write_all(text.as_bytes());
        });
        let out = child.wait_with_output();
        let _ = w.join();
        out
    })
    .ok()?;
    let so = String::from_utf8_lossy(&out.stdout).to_string();
    let line = so.lines().find(|l| l.starts_with("MISMATCH "))?;
    // MISMATCH invocation #A (class) differs from #R (class): diff
    let rest = line.strip_prefix("MISMATCH invocation #")?;
    let (a, rest) = rest.split_once(" (")?;
    let (oc, rest) = rest.split_once(") differs from #")?;
    let (r, rest) = rest.split_once(" (")?;
    let (ec, diff) = rest.split_once("): ")?;
    let at: usize = a.parse().ok()?;
    let reference_at: usize = r.parse().ok()?;
    Some((
        Mismatch {
            at,
            reference_at,
            decl: h[at].decl.unwrap_or(0),
        },
        diff.to_string(),
        ec.to_string(),
        oc.to_string(),
    ))
}

/// replay: a file with one invocation per line: thread \t strategy \t hseed \t decl-id-or-"-" \t src (escaped \n)
fn replay_cmd(args: &[String]) -> ! {
    let path = arg(args, "--file").unwrap_or_else(|| die("--file"));
    let text = if path == "-" {
        use std::io::Read;
        let mut t = String::new();
        std::io::stdin().read_to_string(&mut t).unwrap_or_else(|_| die("stdin"));
        t
    } else {
        std::fs::read_to_string(path).unwrap_or_else(|_| die("cannot read --file"))
    };
    if let Some(first) = text.lines().next() {
        if let Some(pert) = parse_perturb(first) {
            // cross-process replay: the same history in two fresh processes
            let body: String = text.lines().skip(1).map(|l| format!("{}\n", l)).collect();
            let h = parse_history(&body);
            let exe = std::env::current_exe().unwrap_or_else(|_| die("current_exe"));
            let a = execute_in_child(&exe, &h).unwrap_or_else(|e| die(&e));
            let b = execute_in_child_env(&exe, &h, Some(&pert)).unwrap_or_else(|e| die(&e));
            for i in 0..h.len() {
                println!("#{} plain: {} {} {:016x} | perturbed: {} {} {:016x}", i, a[i].class, a[i].len, a[i].h1, b[i].class, b[i].len, b[i].h1);
                if h[i].decl.is_some() && a[i] != b[i] {
                    println!("MISMATCH invocation #{} ({}) differs from #{} ({}): across processes ({})", i, b[i].class, i, a[i].class, first);
                    std::process::exit(1);
                }
            }
            println!("no mismatch");
            std::process::exit(0);
        }
    }
    let h = parse_history(&text);
    let o = execute(&h);
    for (i, (inv, out)) in h.iter().zip(o.iter()).enumerate() {
        println!(
            "#{} thread={} plan={}:{} decl={:?} -> {} {:016x}",
            i,
            inv.thread,
            strat_name(inv.strategy),
            inv.hseed,
            inv.decl,
            outcome_class(out),
            fnv(outcome_text(out).as_bytes())
        );
    }
    match find_mismatch(&h, &o) {
        Some(m) => {
            println!(
                "MISMATCH invocation #{} ({}) differs from #{} ({}): {}",
                m.at,
                outcome_class(&o[m.at]),
                m.reference_at,
                outcome_class(&o[m.reference_at]),
                first_difference(&outcome_text(&o[m.reference_at]), &outcome_text(&o[m.at]))
            );
            std::process::exit(1)
        }
        None => {
            println!("no mismatch");
            std::process::exit(0)
        }
    }
}

/// EXPSIM-REAL: the source of a crate with `count` derives. Each observed declaration
/// appears at several positions (different modules), with fault declarations in between.
fn gen_real_cmd(args: &[String]) -> ! {
    let seed: u64 = arg(args, "--seed").and_then(|s| s.parse().ok()).unwrap_or_else(|| die("--seed"));
    let count: usize = arg(args, "--count").and_then(|s| s.parse().ok()).unwrap_or(60);
    let mut rng = Rng::stream(seed, tag("expreal"), 0);
    let n_decl = (count / 3).max(1);
    let decls: Vec<gen::Decl> = (0..n_decl)
        .map(|k| {
            let mut d = gen::supported(&mut rng, &format!("R{}", k), false);
            while d.n > 600 {
                d = gen::supported(&mut rng, &format!("R{}", k), false);
            }
            d
        })
        .collect();
    let mut out = String::from("#![allow(warnings)]\n");
    let mut index = Vec::new();
    for pos in 0..count {
        let d = if pos < n_decl { pos } else { rng.below(n_decl as u64) as usize };
        out.push_str(&format!("pub mod p{} {{\nuse enum_tools::EnumTools;\n{}\n}}\n", pos, decls[d].src));
        index.push(J::obj(vec![("pos", J::Int(pos as i128)), ("ident", J::s(format!("R{}", d)))]));
        if rng.chance(1, 4) {
            let (t, src) = gen::fault(&mut rng, false);
            if t != "parse_error" {
                out.push_str(&format!(
                    "pub mod f{} {{\nuse enum_tools::EnumTools;\n#[derive(EnumTools)]\n{}\n}}\n",
                    pos, src
                ));
            }
        }
    }
    println!(
        "{}",
        J::obj(vec![("source", J::s(out)), ("index", J::Arr(index)), ("declarations", J::Int(n_decl as i128))]).render()
    );
    std::process::exit(0)
}

fn main() {
    std::panic::set_hook(Box::new(|_| {}));
    let args: Vec<String> = std::env::args().collect();
    match args.get(1).map(|s| s.as_str()).unwrap_or("") {
        "run" => run_cmd(&args),
        "replay" => replay_cmd(&args),
        "child" => child_cmd(),
        "gen-real" => gen_real_cmd(&args),
        "expand" => {
            let strategy = arg(&args, "--strategy").and_then(Strategy::parse).unwrap_or(Strategy::Sip);
            let hseed: u64 = arg(&args, "--hseed").and_then(|s| s.parse().ok()).unwrap_or(0);
            let mut src = String::new();
            use std::io::Read;
            std::io::stdin().read_to_string(&mut src).unwrap();
            let t = spawn_sim_thread();
            println!("{:?}", t.expand(&src, strategy, hseed));
        }
        _ => die("usage: run | replay | gen-real | expand"),
    }
}
