//! Generator of derive inputs: supported declarations (all reprs, literal spellings, feature
//! subsets with modes and parameters, foreign attributes) and fault declarations, each built
//! to leave the derive through one specific exit (abort!, emit_error!-only, plain panic).

use simcore::rng::Rng;

pub const REPRS: [&str; 12] = [
    "u8", "u16", "u32", "u64", "u128", "usize", "i8", "i16", "i32", "i64", "i128", "isize",
];

fn bounds(r: &str) -> (i128, i128) {
    let (lo, hi): (i128, i128) = match r {
        "u8" => (0, u8::MAX as i128),
        "u16" => (0, u16::MAX as i128),
        "u32" => (0, u32::MAX as i128),
        "u64" | "usize" | "u128" => (0, i64::MAX as i128),
        "i8" => (i8::MIN as i128, i8::MAX as i128),
        "i16" => (i16::MIN as i128, i16::MAX as i128),
        "i32" => (i32::MIN as i128, i32::MAX as i128),
        _ => (i64::MIN as i128 + 1, i64::MAX as i128),
    };
    (lo, hi)
}

#[derive(Clone, Debug)]
pub struct Decl {
    pub src: String,
    /// number of feature entries over all enum-level enum_tools attributes (one Params map each)
    pub feature_entries: usize,
    /// discriminants in declaration order
    pub values: Vec<i64>,
    pub n: usize,
}

fn spell(rng: &mut Rng, v: i64, repr: &str) -> String {
    let neg = v < 0;
    let m = (v as i128).unsigned_abs();
    let mut digits = match rng.below(6) {
        0 => format!("0x{:x}", m),
        1 => format!("0X{:X}", m).replace("0X", "0x"),
        2 => format!("0o{:o}", m),
        3 if m < (1 << 20) => format!("0b{:b}", m),
        _ => format!("{}", m),
    };
    if rng.chance(1, 5) && digits.len() > 3 {
        // digit separators (never directly after the base prefix's 0)
        let start = if digits.starts_with("0x") || digits.starts_with("0o") || digits.starts_with("0b") {
            3
        } else {
            1
        };
        if start < digits.len() {
            let pos = start + rng.below((digits.len() - start) as u64) as usize;
            digits.insert(pos, '_');
        }
    }
    if rng.chance(1, 6) {
        digits.push_str(repr);
    }
    if neg {
        if rng.chance(1, 4) {
            format!("- {}", digits)
        } else {
            format!("-{}", digits)
        }
    } else {
        digits
    }
}

fn str_lit(s: &str) -> String {
    format!("{:?}", s)
}

const RENAMES: [&str; 10] = [
    "", "a b", "ünï", "q\"q", "b\\s", "{x}", "dup", "dup", "V0", "中",
];

const HELPER_IDENTS: [&str; 12] = [
    "__NAME", "__ENUM", "__RANGES", "__MIN", "__MAX", "__next", "__next_back", "__as_str", "__iter", "r#type",
    "r#match", "__try_from",
];
const FOREIGN_ENUM_ATTRS: [&str; 6] = [
    "#[allow(dead_code)]",
    "#[doc = \" an enum\"]",
    "/// documented",
    "#[cfg_attr(any(), derive(Debug))]",
    "#[non_exhaustive]",
    "#[allow(clippy::all, non_camel_case_types)]",
];
const FOREIGN_VAR_ATTRS: [&str; 4] = ["/// a variant", "#[doc(hidden)]", "#[allow(unused)]", "#[cfg(all())]"];

pub fn sorted_values(rng: &mut Rng, repr: &str, n: usize) -> Vec<i64> {
    let (lo, hi) = bounds(repr);
    let span = hi - lo + 1;
    let n = (n as i128).min(span) as usize;
    let gapless = rng.chance(2, 5);
    // run structure: mixed lengths, or (1 in 8 of the with-holes ones) nothing but singletons or pairs,
    // so that the number of holes reaches the number of variants
    let fixed: Option<usize> = if !gapless && rng.chance(1, 8) {
        Some(1 + rng.below(2) as usize)
    } else {
        None
    };
    let mut runs: Vec<usize> = Vec::new();
    let mut left = n;
    while left > 0 {
        let c = if gapless {
            left
        } else if let Some(f) = fixed {
            left.min(f)
        } else {
            left.min(*rng.pick(&[1usize, 1, 2, 3, 5, 8, 20, 100, 1000]))
        };
        runs.push(c);
        left -= c;
    }
    let mut gaps: Vec<i128> = (1..runs.len())
        .map(|_| *rng.pick(&[1i128, 1, 2, 3, 7, 50, 1000, 1 << 20]))
        .collect();
    let mut total: i128 = n as i128 + gaps.iter().sum::<i128>();
    if total > span {
        for g in gaps.iter_mut() {
            *g = 1;
        }
        total = n as i128 + gaps.len() as i128;
        if total > span {
            runs = vec![n];
            gaps.clear();
            total = n as i128;
        }
    }
    // one declaration in eight with holes: one gap is stretched towards the whole width of the repr, so
    // that spans beyond half the repr's range (> i64::MAX for the 64-bit reprs) occur (seeded c17k)
    if !gaps.is_empty() && total < span && rng.chance(1, 8) {
        let j = rng.below(gaps.len() as u64) as usize;
        let extra = (span - total) >> rng.below(4);
        gaps[j] += extra;
        total += extra;
    }
    let start = match rng.below(6) {
        0 => lo,
        1 => hi - total + 1,
        2 => 0,
        3 => -1 - rng.below(50) as i128,
        4 => -total / 2,
        _ => lo + (rng.next_u64() as i128).rem_euclid((span - total + 1).max(1)),
    };
    let start = start.max(lo).min(hi - total + 1);
    let mut v = Vec::with_capacity(n);
    let mut cur = start;
    for (k, c) in runs.iter().enumerate() {
        for x in 0..*c {
            v.push((cur + x as i128) as i64);
        }
        cur += *c as i128;
        if k < gaps.len() {
            cur += gaps[k];
        }
    }
    v
}

pub fn size_class(rng: &mut Rng, allow_huge: bool) -> usize {
    match rng.below(1000) {
        0..=599 => 1 + rng.below(8) as usize,
        600..=899 => 1 + rng.below(40) as usize,
        900..=979 => 50 + rng.below(400) as usize,
        980..=997 => 500 + rng.below(4500) as usize,
        _ => {
            // the documented size limit: one expansion takes seconds, so only 1 run in 10 000
            if allow_huge && rng.chance(1, 20) {
                65534
            } else {
                2000
            }
        }
    }
}

pub struct FeatureSet {
    pub entries: Vec<String>,
}

/// a legal feature set for an enum that is gapless or not
pub fn features(rng: &mut Rng, gapless: bool, sorted_value_ok: bool, sorted_name_ok: bool) -> FeatureSet {
    let mut e: Vec<String> = Vec::new();
    let vis = |rng: &mut Rng| -> Option<&'static str> {
        match rng.below(8) {
            0 => Some(""),
            1 => Some("pub(crate)"),
            2 => Some("pub"),
            _ => None,
        }
    };
    let mut k = 0usize;
    let mut params = |rng: &mut Rng, base: &str, mode: Option<&[&str]>, strukt: bool| -> String {
        let mut p: Vec<String> = Vec::new();
        if let Some(ms) = mode {
            if rng.chance(1, 2) {
                p.push(format!("mode = {}", str_lit(*rng.pick(ms))));
            }
        }
        if rng.chance(1, 5) {
            k += 1;
            p.push(format!("name = {}", str_lit(&format!("{}_x{}", base.to_lowercase(), k))));
        }
        if let Some(v) = vis(rng) {
            p.push(format!("vis = {}", str_lit(v)));
        }
        // the struct-name parameter is read as "struct" by the derive, which is a keyword and cannot
        // be written as a meta path; the documented "struct_name" is an unknown parameter. Either way
        // it cannot appear in a supported declaration (C15 territory, not claimed): never generated.
        let _ = strukt;
        rng_shuffle(rng, &mut p);
        if p.is_empty() {
            base.to_string()
        } else {
            format!("{}({})", base, p.join(", "))
        }
    };
    let str_modes: &[&str] = &["auto", "match", "table"];
    let iter_modes: Vec<&str> = if gapless {
        vec!["auto", "range", "next_and_back", "table", "table_inline"]
    } else {
        vec!["auto", "next_and_back", "table", "table_inline"]
    };
    let mut iter_mode: Option<String> = None;
    if rng.chance(3, 5) {
        let m = *rng.pick(&iter_modes);
        let ent = if m == "auto" && rng.chance(1, 2) {
            params(rng, "iter", None, true)
        } else {
            let mut s = params(rng, "iter", None, true);
            let mode = format!("mode = {}", str_lit(m));
            if s.ends_with(')') {
                s.insert_str(s.len() - 1, &format!(", {}", mode));
            } else {
                s = format!("iter({})", mode);
            }
            s
        };
        iter_mode = Some(m.to_string());
        e.push(ent);
    }
    if let Some(m) = &iter_mode {
        if m != "table_inline" && rng.chance(1, 2) {
            e.push(params(rng, "range", None, false));
        }
    }
    if rng.chance(1, 2) {
        e.push(params(rng, "names", None, true));
    }
    for f in ["as_str", "from_str"] {
        if rng.chance(1, 2) {
            e.push(params(rng, f, Some(str_modes), false));
        }
    }
    if rng.chance(1, 2) {
        // FromStr takes only `mode`
        if rng.chance(1, 2) {
            e.push(format!("FromStr(mode = {})", str_lit(*rng.pick(str_modes))));
        } else {
            e.push("FromStr".to_string());
        }
    }
    for f in ["into", "MAX", "MIN", "next", "next_back", "try_from"] {
        if rng.chance(2, 5) {
            e.push(params(rng, f, None, false));
        }
    }
    for f in ["Debug", "Display", "Into", "IntoStr", "TryFrom"] {
        if rng.chance(2, 5) {
            e.push(f.to_string());
        }
    }
    if (sorted_value_ok || sorted_name_ok) && rng.chance(1, 3) {
        let mut p = Vec::new();
        if sorted_value_ok && rng.chance(2, 3) {
            p.push("value");
        }
        if sorted_name_ok && rng.chance(2, 3) {
            p.push("name");
        }
        if p.is_empty() {
            e.push("sorted".to_string());
        } else {
            e.push(format!("sorted({})", p.join(", ")));
        }
    }
    rng_shuffle(rng, &mut e);
    FeatureSet { entries: e }
}

pub fn rng_shuffle<T>(rng: &mut Rng, v: &mut [T]) {
    for i in (1..v.len()).rev() {
        let j = rng.below(i as u64 + 1) as usize;
        v.swap(i, j);
    }
}

pub fn supported(rng: &mut Rng, ident: &str, allow_huge: bool) -> Decl {
    supported_capped(rng, ident, allow_huge, usize::MAX)
}

/// like `supported`, with at most `cap` variants
pub fn supported_capped(rng: &mut Rng, ident: &str, allow_huge: bool, cap: usize) -> Decl {
    let repr = *rng.pick(&REPRS);
    let n = size_class(rng, allow_huge).min(cap);
    let sorted = sorted_values(rng, repr, n);
    let n = sorted.len();
    let gapless = (sorted[n - 1] as i128 - sorted[0] as i128) == n as i128 - 1;
    let mut order: Vec<usize> = (0..n).collect();
    match rng.below(5) {
        0 | 1 => {}
        2 => rng_shuffle(rng, &mut order),
        3 => order.reverse(),
        _ => {
            if n > 2 {
                let k = 1 + rng.below(n as u64 - 1) as usize;
                order.rotate_left(k);
            }
        }
    }
    let ascending = order.windows(2).all(|w| w[0] < w[1]);
    let renames = rng.chance(1, 3);
    let mut body = String::new();
    let mut prev: Option<i64> = None;
    let mut values = Vec::with_capacity(n);
    let mut names: Vec<String> = Vec::with_capacity(n);
    let mut used_ids: Vec<String> = Vec::new();
    for (pos, &si) in order.iter().enumerate() {
        let v = sorted[si];
        if rng.chance(1, 12) {
            body.push_str(*rng.pick(&FOREIGN_VAR_ATTRS));
            body.push('\n');
        }
        // now and then a variant named like one of the derive's hidden helper items, or a raw identifier
        let id = if pos < HELPER_IDENTS.len() && rng.chance(1, 25) {
            HELPER_IDENTS[(pos + rng.below(3) as usize) % HELPER_IDENTS.len()].to_string()
        } else {
            format!("V{}", pos)
        };
        let id = if used_ids.contains(&id) { format!("V{}", pos) } else { id };
        used_ids.push(id.clone());
        let mut name = id.clone();
        if renames && rng.chance(1, 4) {
            let r: String = if rng.chance(1, 30) {
                // a very long name
                "long_".repeat(60 + rng.below(20) as usize)
            } else {
                rng.pick(&RENAMES).to_string()
            };
            // now and then several rename attributes on one variant: accepted, the last one wins
            if rng.chance(1, 6) {
                let first = rng.pick(&RENAMES).to_string();
                body.push_str(&format!("#[enum_tools(rename = {})] ", str_lit(&first)));
                if rng.chance(1, 3) {
                    body.push_str("#[doc(hidden)] ");
                    body.push_str(&format!("#[enum_tools(rename = {})] ", str_lit("middle")));
                }
            }
            body.push_str(&format!("#[enum_tools(rename = {})] ", str_lit(&r)));
            name = r;
        }
        let legal_implicit = match prev {
            None => v == 0,
            Some(p) => p != i64::MAX && v == p + 1,
        };
        if legal_implicit && rng.chance(3, 5) {
            body.push_str(&format!("{},\n", id));
        } else {
            body.push_str(&format!("{} = {},\n", id, spell(rng, v, repr)));
        }
        prev = Some(v);
        values.push(v);
        names.push(name);
    }
    let names_sorted = names.windows(2).all(|w| w[0] < w[1]);
    let fs = features(rng, gapless, ascending, names_sorted);
    // split the feature entries over 0..=3 attributes
    let mut attrs: Vec<String> = Vec::new();
    let one_per_attr = rng.chance(1, 10);
    let mut rest: &[String] = &fs.entries;
    while !rest.is_empty() {
        let take = if one_per_attr {
            1
        } else if rng.chance(1, 2) {
            rest.len()
        } else {
            1 + rng.below(rest.len() as u64) as usize
        };
        attrs.push(format!("#[enum_tools({})]", rest[..take].join(", ")));
        rest = &rest[take..];
    }
    if rng.chance(1, 10) {
        attrs.push("#[enum_tools()]".to_string());
    }
    attrs.push(format!("#[repr({})]", repr));
    for _ in 0..rng.below(3) {
        attrs.push(rng.pick(&FOREIGN_ENUM_ATTRS).to_string());
    }
    rng_shuffle(rng, &mut attrs);
    let vis = *rng.pick(&["pub ", "pub(crate) ", "", "pub(super) ", "pub(in crate) "]);
    let src = format!(
        "#[derive(Clone, Copy, EnumTools)]\n{}\n{}enum {} {{\n{}}}\n",
        attrs.join("\n"),
        vis,
        ident,
        body
    );
    Decl {
        src,
        feature_entries: fs.entries.len(),
        values,
        n,
    }
}

/// (tag, source): each leaves the derive through one specific exit
pub fn fault(rng: &mut Rng, huge_ok: bool) -> (&'static str, String) {
    let base_attrs = "#[repr(u8)]";
    let body = "A, B = 5, C";
    let mk = |attrs: &str, body: &str| format!("{}\npub enum F {{ {} }}\n", attrs, body);
    let k = rng.below(if huge_ok { 44 } else { 43 });
    match k {
        // ---- abort! sites
        0 => ("abort_missing_repr", mk("#[enum_tools(iter)]", body)),
        1 => ("abort_duplicate_repr", mk("#[repr(u8)] #[repr(u8)]", body)),
        2 => ("abort_unsupported_repr", mk("#[repr(C)]", body)),
        3 => ("abort_repr_parse", mk("#[repr(u8, C)]", body)),
        4 => ("abort_meta_parse_enum", mk("#[repr(u8)] #[enum_tools(=)]", body)),
        5 => ("abort_meta_parse_nested", mk("#[repr(u8)] #[enum_tools(iter(=))]", body)),
        6 => ("abort_meta_parse_variant", mk(base_attrs, "A, #[enum_tools(rename = )] B")),
        7 => ("abort_unsupported_path", mk("#[repr(u8)] #[enum_tools(a::b)]", body)),
        8 => ("abort_unsupported_path_param", mk("#[repr(u8)] #[enum_tools(iter(a::b = \"x\"))]", body)),
        9 => ("abort_not_enum_struct", "#[repr(u8)]\npub struct F { a: u8 }\n".to_string()),
        10 => ("abort_not_enum_union", "#[repr(u8)]\npub union F { a: u8 }\n".to_string()),
        11 => ("abort_no_variants", mk(base_attrs, "")),
        12 => ("abort_range_without_iter", mk("#[repr(u8)] #[enum_tools(range)]", body)),
        13 => (
            "abort_range_table_inline",
            mk("#[repr(u8)] #[enum_tools(range, iter(mode = \"table_inline\"))]", body),
        ),
        14 => ("abort_iter_range_holes", mk("#[repr(u8)] #[enum_tools(iter(mode = \"range\"))]", body)),
        // ---- emit_error!-only: the whole expansion runs and is then discarded
        15 => ("emit_duplicate_feature", mk("#[repr(u8)] #[enum_tools(iter, as_str)] #[enum_tools(iter)]", body)),
        16 => (
            "emit_duplicate_parameter",
            mk("#[repr(u8)] #[enum_tools(iter(mode = \"auto\", mode = \"table\"))]", body),
        ),
        17 => ("emit_duplicate_value", mk("#[repr(u8)] #[enum_tools(iter, names)]", "A = 1, B = 1, C")),
        18 => ("emit_unknown_feature", mk("#[repr(u8)] #[enum_tools(bogus, iter, also_bogus)]", body)),
        19 => ("emit_unknown_parameter", mk("#[repr(u8)] #[enum_tools(iter(bogus = \"x\", other))]", body)),
        20 => ("emit_bad_mode", mk("#[repr(u8)] #[enum_tools(as_str(mode = \"fast\"), iter(mode = \"x\"), from_str(mode = \"\"), FromStr(mode = \"Table\"))]", body)),
        21 => ("emit_bad_vis", mk("#[repr(u8)] #[enum_tools(into(vis = \"pub(super)\"))]", body)),
        22 => ("emit_unexpected_literal", mk("#[repr(u8)] #[enum_tools(sorted(name = \"x\"))]", body)),
        23 => ("emit_expected_literal", mk("#[repr(u8)] #[enum_tools(as_str(mode), into(name = 5))]", body)),
        24 => ("emit_non_unit_variant", mk("#[repr(u8)] #[enum_tools(iter)]", "A, B(u8), C { x: u8 }")),
        25 => ("emit_non_literal_discriminant", mk("#[repr(u8)] #[enum_tools(iter)]", "A = 1 + 1, B = X, C = (3)")),
        26 => (
            "emit_i64_overflow",
            mk("#[repr(u64)] #[enum_tools(iter)]", "A = 9223372036854775807, B"),
        ),
        27 => ("emit_no_i64", mk("#[repr(u64)] #[enum_tools(iter)]", "A = 18446744073709551615")),
        28 => ("emit_unsorted_value", mk("#[repr(u8)] #[enum_tools(sorted(value))]", "A = 3, B = 1")),
        29 => ("emit_unsorted_name", mk("#[repr(u8)] #[enum_tools(sorted(name))]", "B, A")),
        30 => ("emit_variant_attr_not_rename", mk(base_attrs, "#[enum_tools(foo = \"x\")] A, B")),
        31 => ("emit_variant_rename_not_string", mk(base_attrs, "#[enum_tools(rename = 5)] A, #[enum_tools] B")),
        32 => ("emit_enum_attr_name_value", mk("#[repr(u8)] #[enum_tools = \"x\"]", body)),
        33 => ("emit_nested_meta", mk("#[repr(u8)] #[enum_tools(iter(mode(x)), names(a(b), c = d))]", body)),
        34 => ("emit_two_unknown", mk("#[repr(u8)] #[enum_tools(x1, x2, x3(y1, y2))]", body)),
        // ---- plain panics, re-raised by proc-macro-error
        35 => ("panic_bad_ident_name", mk("#[repr(u8)] #[enum_tools(iter(name = \"1 bad\"))]", body)),
        36 => ("panic_empty_struct_name", mk("#[repr(u8)] #[enum_tools(names(struct = \"\"))]", body)),
        37 => ("panic_bad_const_name", mk("#[repr(u8)] #[enum_tools(MIN(name = \"a-b\"))]", body)),
        // ---- not even a DeriveInput
        38 => ("parse_error", "fn f() {}".to_string()),
        39 => ("abort_after_emit", mk("#[repr(u8)] #[enum_tools(bogus, range)]", body)),
        40 => ("abort_literal_in_list", mk("#[repr(u8)] #[enum_tools(iter, \"lit\")]", body)),
        41 => ("emit_vis_not_string", mk("#[repr(u8)] #[enum_tools(into(vis = 5), MIN(vis), MAX(name))]", body)),
        42 => ("emit_duplicate_value_implicit", mk("#[repr(u8)] #[enum_tools(iter, names)]", "A = 1, B = 0, C")),
        _ => {
            let mut b = String::with_capacity(65535 * 8);
            for i in 0..65535 {
                b.push_str(&format!("V{},", i));
            }
            ("abort_too_many_variants", mk("#[repr(u32)]", &b))
        }
    }
}
