//! Command line of a corpus binary (`gen/<corpus>/src/main.rs` calls `driver::main(MODULES)`).
//!
//!   info
//!   run   --prop C06 --seed S --runs N [--from A] [--workers W] [--pairs 0|1] [--only SUBSTR] --out FILE
//!   exec  --prop C06 --module NAME --history "0:I 0:n ..."
//!   dump-run --prop C06 --seed S --index I
//!
//! Exit codes of `run`/`exec`: 0 no violation, 1 violation(s) (described in the output),
//! 2 harness error, 3 watchdog (a run exceeded the wall-clock limit).

use crate::exec::{run_history, ExecOpts, RunStats, Violation};
use crate::json::J;
use crate::module::Module;
use crate::ops::{decode_history, encode_history, generate, Caps, Event, Kind, Op, Prop};
use crate::rng::{tag, Rng};
use crate::shrink::shrink;
use std::cell::Cell;
use std::collections::{BTreeMap, HashSet};
use std::sync::atomic::{AtomicBool, AtomicU64, Ordering};
use std::sync::Mutex;
use std::time::Instant;

thread_local! {
    static CUR: Cell<(u64, &'static str)> = const { Cell::new((u64::MAX, "")) };
    /// the history being executed right now, encoded (read by the panic hook on a non-unwinding panic)
    static CUR_HIST: std::cell::RefCell<String> = const { std::cell::RefCell::new(String::new()) };
}

fn set_cur(run: u64, module: &'static str, hist: &[Event]) {
    CUR.with(|c| c.set((run, module)));
    CUR_HIST.with(|h| {
        let mut h = h.borrow_mut();
        h.clear();
        h.push_str(&encode_history(hist));
    });
}

fn arg<'a>(args: &'a [String], name: &str) -> Option<&'a str> {
    args.iter()
        .position(|a| a == name)
        .and_then(|i| args.get(i + 1))
        .map(|s| s.as_str())
}

fn die(msg: &str) -> ! {
    eprintln!("itersim: harness error: {}", msg);
    std::process::exit(2)
}

fn caps(m: &Module) -> Caps {
    Caps {
        n: m.n(),
        iter: m.new_iter.is_some(),
        range: m.new_range.is_some(),
        names: m.new_names.is_some(),
    }
}

fn eligible(modules: &'static [&'static Module], prop: Prop, only: Option<&str>) -> Vec<&'static Module> {
    modules
        .iter()
        .copied()
        .filter(|m| !caps(m).kinds_for(prop).is_empty())
        .filter(|m| only.map(|o| m.name.contains(o)).unwrap_or(true))
        .collect()
}

/// Ground truth comes from the generator; validate its discriminant arithmetic against
/// plain `as` casts done by rustc (this checks the generator, not the macro).
fn validate(modules: &'static [&'static Module]) {
    for m in modules {
        if m.disc.is_empty() || m.disc.len() != m.names.len() {
            die(&format!("{}: malformed ground truth", m.name));
        }
        for i in 0..m.disc.len() {
            if i > 0 && m.disc[i - 1] >= m.disc[i] {
                die(&format!("{}: ground truth not strictly ascending", m.name));
            }
            let c = (m.cast)(i);
            if c != m.disc[i] {
                die(&format!(
                    "{}: generator says variant #{} has discriminant {}, rustc says {}",
                    m.name, i, m.disc[i], c
                ));
            }
        }
    }
}

fn fnv(h: &mut u64, bytes: &[u8]) {
    for b in bytes {
        *h ^= *b as u64;
        *h = h.wrapping_mul(0x100_0000_01b3);
    }
}

fn mix(mut x: u64) -> u64 {
    crate::rng::splitmix(&mut x)
}

#[derive(Default)]
struct Acc {
    runs: u64,
    ops: u64,
    digest: u64,
    nontrivial: Vec<u64>,
    windows: HashSet<u64>,
    interleave: u64,
    drop_recreate: u64,
    callback_panic: u64,
    early_exit: u64,
    migrate: u64,
    exhaust_poke: u64,
    consumed_whole: u64,
    probes: u64,
    probe_panics: u64,
    zips: u64,
    creates: [u64; 3],
    diverged_unreported: u64,
    per_mode: BTreeMap<&'static str, u64>,
    per_shape: BTreeMap<&'static str, u64>,
    per_module: BTreeMap<&'static str, u64>,
    clients_hist: [u64; 5],
    /// (iterator mode label, gapless?, handle kind, operation letters) -> applications on a live handle
    matrix: BTreeMap<(&'static str, bool, u8, String), u64>,
}

impl Acc {
    fn add_run(&mut self, idx: u64, mi: usize, m: &'static Module, hist: &[Event], st: &RunStats, obs_digest: u64) {
        self.runs += 1;
        self.ops += st.ops;
        let mut hd = 0xcbf2_9ce4_8422_2325u64;
        fnv(&mut hd, m.name.as_bytes());
        fnv(&mut hd, encode_history(hist).as_bytes());
        self.digest = self
            .digest
            .wrapping_add(mix(idx ^ mix(hd ^ obs_digest.rotate_left(1))));
        if st.state_changing >= 3 && st.visited_partial {
            self.nontrivial.push(hd);
        }
        for (lo, hi) in &st.windows {
            self.windows
                .insert(((mi as u64) << 48) | ((*lo as u64) << 24) | (*hi as u64));
        }
        self.interleave += st.interleave as u64;
        self.drop_recreate += st.drop_recreate;
        self.callback_panic += st.callback_panic;
        self.early_exit += st.early_exit;
        self.migrate += st.migrate;
        self.exhaust_poke += st.exhaust_poke;
        self.consumed_whole += st.consumed_whole;
        self.probes += st.probes;
        self.probe_panics += st.probe_panics;
        self.zips += st.zips;
        for k in 0..3 {
            self.creates[k] += st.creates[k];
        }
        self.diverged_unreported += st.diverged_unreported;
        *self.per_mode.entry(m.iter_mode).or_default() += 1;
        for t in m.shape.split(',') {
            if !t.is_empty() {
                *self.per_shape.entry(t).or_default() += 1;
            }
        }
        *self.per_module.entry(m.name).or_default() += 1;
        let gl = m.gapless();
        for (k, i) in &st.applied {
            let key = (m.iter_mode, gl, *k as u8, hist[*i as usize].op.letters());
            match self.matrix.get_mut(&key) {
                Some(c) => *c += 1,
                None => {
                    self.matrix.insert(key, 1);
                }
            }
        }
        let nc = hist.iter().map(|e| e.client).max().map(|c| c as usize + 1).unwrap_or(0);
        self.clients_hist[nc.min(4)] += 1;
    }
    fn merge(&mut self, o: Acc) {
        self.runs += o.runs;
        self.ops += o.ops;
        self.digest = self.digest.wrapping_add(o.digest);
        self.nontrivial.extend(o.nontrivial);
        self.windows.extend(o.windows);
        self.interleave += o.interleave;
        self.drop_recreate += o.drop_recreate;
        self.callback_panic += o.callback_panic;
        self.early_exit += o.early_exit;
        self.migrate += o.migrate;
        self.exhaust_poke += o.exhaust_poke;
        self.consumed_whole += o.consumed_whole;
        self.probes += o.probes;
        self.probe_panics += o.probe_panics;
        self.zips += o.zips;
        for k in 0..3 {
            self.creates[k] += o.creates[k];
        }
        self.diverged_unreported += o.diverged_unreported;
        for (k, v) in o.per_mode {
            *self.per_mode.entry(k).or_default() += v;
        }
        for (k, v) in o.per_shape {
            *self.per_shape.entry(k).or_default() += v;
        }
        for (k, v) in o.per_module {
            *self.per_module.entry(k).or_default() += v;
        }
        for k in 0..5 {
            self.clients_hist[k] += o.clients_hist[k];
        }
        for (k, v) in o.matrix {
            *self.matrix.entry(k).or_default() += v;
        }
    }
}

struct Found {
    run_index: i64,
    module: &'static Module,
    full: Vec<Event>,
    min: Vec<Event>,
    v: Violation,
    attempts: u32,
}


fn module_json(m: &Module) -> J {
    J::obj(vec![
        ("name", J::s(m.name)),
        ("repr", J::s(m.repr)),
        ("iter_mode", J::s(m.iter_mode)),
        ("shape", J::s(m.shape)),
        ("config", J::s(m.config)),
        ("ord_reversed", J::Bool(m.ord_reversed)),
        ("n", J::Int(m.n() as i128)),
        ("gapless", J::Bool(m.gapless())),
        ("has_iter", J::Bool(m.new_iter.is_some())),
        ("has_range", J::Bool(m.new_range.is_some())),
        ("has_names", J::Bool(m.new_names.is_some())),
    ])
}

fn transcript_json(t: &[(u8, String, String)]) -> J {
    J::Arr(
        t.iter()
            .map(|(c, o, obs)| {
                J::Arr(vec![J::Int(*c as i128), J::s(o.clone()), J::s(obs.clone())])
            })
            .collect(),
    )
}

fn kind_s(k: Option<Kind>) -> &'static str {
    match k {
        Some(Kind::Iter) => "iter",
        Some(Kind::Range) => "range",
        Some(Kind::Names) => "names",
        None => "probe",
    }
}

fn found_json(f: &Found, prop: Prop) -> J {
    let opts = ExecOpts {
        prop,
        want_transcript: true,
    };
    let rr = run_history(f.module, &f.min, &opts);
    J::obj(vec![
        ("run_index", J::Int(f.run_index as i128)),
        ("module", module_json(f.module)),
        ("class", J::s(f.v.class.clone())),
        ("kind", J::s(kind_s(f.v.kind))),
        ("step", J::Int(f.v.step as i128)),
        ("op", J::s(f.v.op.clone())),
        ("expected", J::s(f.v.expected.clone())),
        ("observed", J::s(f.v.observed.clone())),
        ("history", J::s(encode_history(&f.min))),
        ("history_full", J::s(encode_history(&f.full))),
        ("shrink_attempts", J::Int(f.attempts as i128)),
        ("transcript", transcript_json(&rr.transcript)),
    ])
}

/// indices worth pairing in a large enum: the ends, the middle, and both sides of every run boundary
fn interesting_indices(m: &Module) -> Vec<usize> {
    let n = m.n();
    let mut v = vec![0, 1, 2, n / 2, n.saturating_sub(3), n.saturating_sub(2), n - 1];
    for k in 0..n - 1 {
        if m.disc[k + 1] != m.disc[k] + 1 {
            v.push(k);
            v.push(k + 1);
        }
        if v.len() > 48 {
            break;
        }
    }
    v.retain(|x| *x < n);
    v.sort();
    v.dedup();
    v
}

fn pair_histories(i: usize, j: usize) -> [Vec<Event>; 2] {
    let e = |op: Op| Event {
        client: 0,
        op,
        migrate: false,
    };
    [
        vec![e(Op::NewRange(i, j)), e(Op::Len), e(Op::Collect)],
        vec![
            e(Op::NewRange(i, j)),
            e(Op::NextBack),
            e(Op::Next),
            e(Op::SizeHint),
            e(Op::RevCollect),
        ],
    ]
}

pub fn main(modules: &'static [&'static Module]) -> ! {
    let args: Vec<String> = std::env::args().collect();
    let cmd = args.get(1).map(|s| s.as_str()).unwrap_or("");
    // silent panics, except the non-unwinding ones raised by core's ub_checks
    std::panic::set_hook(Box::new(|info| {
        let msg = if let Some(s) = info.payload().downcast_ref::<&'static str>() {
            (*s).to_string()
        } else if let Some(s) = info.payload().downcast_ref::<String>() {
            s.clone()
        } else {
            String::new()
        };
        if msg.contains("unsafe precondition")
            || msg.contains("cannot unwind")
            || msg.contains("invalid value")
            || msg.contains("invalid enum")
        {
            let (run, module) = CUR.with(|c| c.get());
            let hist = CUR_HIST.with(|h| h.try_borrow().map(|h| h.clone()).unwrap_or_default());
            eprintln!(
                "FATAL-UB run={} module={} hist=[{}] msg={}",
                run as i64,
                module,
                hist,
                msg.replace('\n', " ")
            );
        }
    }));
    match cmd {
        "info" => {
            validate(modules);
            let j = J::Arr(modules.iter().map(|m| module_json(m)).collect());
            println!("{}", j.render());
            std::process::exit(0)
        }
        "exec" => {
            let prop = arg(&args, "--prop").and_then(Prop::parse).unwrap_or_else(|| die("--prop"));
            let name = arg(&args, "--module").unwrap_or_else(|| die("--module"));
            let m = modules
                .iter()
                .copied()
                .find(|m| m.name == name)
                .unwrap_or_else(|| die("no such module"));
            let hist = arg(&args, "--history")
                .and_then(decode_history)
                .unwrap_or_else(|| die("--history"));
            validate(modules);
            set_cur(u64::MAX, m.name, &hist);
            let rr = run_history(
                m,
                &hist,
                &ExecOpts {
                    prop,
                    want_transcript: true,
                },
            );
            let j = J::obj(vec![
                ("module", module_json(m)),
                ("history", J::s(encode_history(&hist))),
                ("transcript", transcript_json(&rr.transcript)),
                (
                    "violation",
                    match &rr.violation {
                        None => J::Null,
                        Some(v) => J::obj(vec![
                            ("class", J::s(v.class.clone())),
                            ("kind", J::s(kind_s(v.kind))),
                            ("step", J::Int(v.step as i128)),
                            ("op", J::s(v.op.clone())),
                            ("expected", J::s(v.expected.clone())),
                            ("observed", J::s(v.observed.clone())),
                        ]),
                    },
                ),
            ]);
            println!("{}", j.render());
            std::process::exit(if rr.violation.is_some() { 1 } else { 0 })
        }
        "dump-run" => {
            let prop = arg(&args, "--prop").and_then(Prop::parse).unwrap_or_else(|| die("--prop"));
            let seed: u64 = arg(&args, "--seed").and_then(|s| s.parse().ok()).unwrap_or_else(|| die("--seed"));
            let idx: u64 = arg(&args, "--index").and_then(|s| s.parse().ok()).unwrap_or_else(|| die("--index"));
            let el = eligible(modules, prop, arg(&args, "--only"));
            if el.is_empty() {
                die("no eligible module");
            }
            let (m, hist) = gen_run(&el, prop, seed, idx);
            println!(
                "{}",
                J::obj(vec![
                    ("module", J::s(m.name)),
                    ("history", J::s(encode_history(&hist)))
                ])
                .render()
            );
            std::process::exit(0)
        }
        "run" => run_cmd(modules, &args),
        _ => die("usage: info | run | exec | dump-run"),
    }
}

/// run the history on a fresh OS thread (fresh thread-locals, fresh migration helper)
pub fn hermetic(m: &'static Module, hist: &[Event], opts: &ExecOpts) -> crate::exec::RunResult {
    let (run, module) = CUR.with(|c| c.get());
    std::thread::scope(|s| {
        std::thread::Builder::new()
            .stack_size(4 << 20)
            .spawn_scoped(s, move || {
                set_cur(run, module, hist);
                run_history(m, hist, opts)
            })
            .expect("spawn hermetic thread")
            .join()
            .expect("hermetic thread")
    })
}

fn gen_run(el: &[&'static Module], prop: Prop, seed: u64, idx: u64) -> (&'static Module, Vec<Event>) {
    let t = tag(&format!("itersim:{}", prop.id()));
    let mut rng = Rng::stream(seed, t, idx);
    // stratified: every module gets its share of runs, in a seed-dependent rotation
    let rot = Rng::stream(seed, t ^ 0x5a5a, 0).next_u64() % el.len() as u64;
    let mut m = el[((idx + rot) % el.len() as u64) as usize];
    // enums of tens of thousands of variants (thorough tier) cost milliseconds per collecting
    // operation: they get one fiftieth of the share of an ordinary module
    if m.n() > 5000 && (idx / el.len() as u64) % 50 != 0 {
        let small: Vec<&'static Module> = el.iter().copied().filter(|x| x.n() <= 5000).collect();
        if !small.is_empty() {
            m = small[((idx + rot) % small.len() as u64) as usize];
        }
    }
    let (hist, _) = generate(&mut rng, caps(m), prop);
    (m, hist)
}

fn run_cmd(modules: &'static [&'static Module], args: &[String]) -> ! {
    let t0 = Instant::now();
    let prop = arg(args, "--prop").and_then(Prop::parse).unwrap_or_else(|| die("--prop"));
    let seed: u64 = arg(args, "--seed").and_then(|s| s.parse().ok()).unwrap_or_else(|| die("--seed"));
    let runs: u64 = arg(args, "--runs").and_then(|s| s.parse().ok()).unwrap_or_else(|| die("--runs"));
    let from: u64 = arg(args, "--from").and_then(|s| s.parse().ok()).unwrap_or(0);
    let workers: usize = arg(args, "--workers").and_then(|s| s.parse().ok()).unwrap_or(1);
    let pairs = arg(args, "--pairs").map(|s| s == "1").unwrap_or(false);
    let out_path = arg(args, "--out");
    let max_viol: usize = arg(args, "--max-violations").and_then(|s| s.parse().ok()).unwrap_or(6);
    let pair_from: u64 = arg(args, "--pair-from").and_then(|s| s.parse().ok()).unwrap_or(0);
    let pair_to: u64 = arg(args, "--pair-to").and_then(|s| s.parse().ok()).unwrap_or(u64::MAX);
    let hermetic_every: u64 = arg(args, "--hermetic-every").and_then(|s| s.parse().ok()).unwrap_or(32);
    let trace = arg(args, "--trace").map(|s| s == "1").unwrap_or(false);
    let hang_s: u64 = arg(args, "--hang-s").and_then(|s| s.parse().ok()).unwrap_or(60);
    validate(modules);
    let el = eligible(modules, prop, arg(args, "--only"));
    if el.is_empty() {
        die("no module of the corpus offers what this property speaks about");
    }
    let opts = ExecOpts {
        prop,
        want_transcript: false,
    };
    let opts_t = ExecOpts {
        prop,
        want_transcript: true,
    };

    let found: Mutex<Vec<Found>> = Mutex::new(Vec::new());
    let stop = AtomicBool::new(false);
    let mut total = Acc::default();
    let mut pairs_runs = 0u64;
    let mut sweep_values = 0u64;

    // signature for de-duplication of reports: one report per (mode, gapless, kind, class, op letter)
    let sig_of = |m: &Module, v: &Violation| -> String {
        let opl: String = v.op.chars().take_while(|c| c.is_alphabetic()).collect();
        format!("{}|{}|{}|{}|{}", m.iter_mode, m.gapless(), kind_s(v.kind), v.class, opl)
    };
    let seen_sigs: Mutex<Vec<String>> = Mutex::new(Vec::new());
    let report = |run_index: i64, m: &'static Module, hist: &[Event], v: Violation| {
        let sig = sig_of(m, &v);
        {
            let mut s = seen_sigs.lock().unwrap();
            if s.contains(&sig) {
                return;
            }
            s.push(sig);
        }
        let (min, mv, attempts) = shrink(m, hist, &opts, &v);
        let mut f = found.lock().unwrap();
        f.push(Found {
            run_index,
            module: m,
            full: hist.to_vec(),
            min,
            v: mv,
            attempts,
        });
        if f.len() >= max_viol {
            stop.store(true, Ordering::SeqCst);
        }
    };

    // ---- phase 1 (C07, C02): every ordered pair of variants, on every module that has range
    let tfsweep = arg(args, "--tfsweep").map(|s| s == "1").unwrap_or(pairs);
    if pairs || tfsweep {
        for (mi, m) in el.iter().copied().enumerate() {
            if !pairs || m.new_range.is_none() {
                continue;
            }
            let idxs: Vec<usize> = if m.n() <= 40 {
                (0..m.n()).collect()
            } else {
                interesting_indices(m)
            };
            for &i in &idxs {
                for &j in &idxs {
                    for h in pair_histories(i, j) {
                        pairs_runs += 1;
                        if pairs_runs <= pair_from || pairs_runs > pair_to {
                            continue;
                        }
                        set_cur(u64::MAX - 1, m.name, &h);
                        if trace {
                            eprintln!("PAIR {} [{}]", m.name, encode_history(&h));
                        }
                        let rr = run_history(m, &h, &opts);
                        total.add_run(u64::MAX - pairs_runs, mi, m, &h, &rr.stats, rr.stats.obs_digest);
                        if let Some(v) = rr.violation {
                            report(-(pairs_runs as i64), m, &h, v);
                        }
                    }
                }
            }
        }
        // ---- phase 1b (C02): every value of the repr for try_from / TryFrom, on the narrow reprs
        // (8 bits always, 16 bits natively only: under Miri that would take hours)
        if prop == Prop::C02 && tfsweep {
            let wide16 = arg(args, "--sweep16").map(|s| s == "1").unwrap_or(true);
            for (mi, m) in el.iter().copied().enumerate() {
                if m.try_from.is_none() && m.try_from_trait.is_none() {
                    continue;
                }
                let (lo, hi): (i128, i128) = match m.repr {
                    "u8" => (0, 255),
                    "i8" => (-128, 127),
                    "u16" if wide16 => (0, 65535),
                    "i16" if wide16 => (-32768, 32767),
                    _ => continue,
                };
                // one history per 256 values keeps the bookkeeping cheap
                let mut v = lo;
                while v <= hi {
                    let h: Vec<Event> = (v..=(v + 255).min(hi))
                        .map(|x| Event {
                            client: 0,
                            op: Op::TryFrom(x),
                            migrate: false,
                        })
                        .collect();
                    pairs_runs += 1;
                    if pairs_runs > pair_from && pairs_runs <= pair_to {
                        set_cur(u64::MAX - 1, m.name, &h);
                        if trace {
                            eprintln!("PAIR {} [{}]", m.name, encode_history(&h));
                        }
                        let rr = run_history(m, &h, &opts);
                        sweep_values += h.len() as u64;
                        total.add_run(u64::MAX - pairs_runs, mi, m, &h, &rr.stats, rr.stats.obs_digest);
                        if let Some(v) = rr.violation {
                            report(-(pairs_runs as i64), m, &h, v);
                        }
                    }
                    v += 256;
                }
            }
        }
        // ---- phase 1c (C02): from_str / FromStr / as_str on every name and three one-edit neighbours
        if prop == Prop::C02 && tfsweep {
            for (mi, m) in el.iter().copied().enumerate() {
                if m.from_str.is_none() && m.from_str_trait.is_none() && m.as_str.is_none() {
                    continue;
                }
                let mut i = 0usize;
                while i < m.n() {
                    let h: Vec<Event> = (i..(i + 64).min(m.n()))
                        .flat_map(|x| (0u8..4).map(move |k| (x, k)))
                        .map(|(x, k)| Event {
                            client: 0,
                            op: Op::FromStr(x, k),
                            migrate: false,
                        })
                        .collect();
                    pairs_runs += 1;
                    if pairs_runs > pair_from && pairs_runs <= pair_to {
                        set_cur(u64::MAX - 1, m.name, &h);
                        if trace {
                            eprintln!("PAIR {} [{}]", m.name, encode_history(&h));
                        }
                        let rr = run_history(m, &h, &opts);
                        sweep_values += h.len() as u64;
                        total.add_run(u64::MAX - pairs_runs, mi, m, &h, &rr.stats, rr.stats.obs_digest);
                        if let Some(v) = rr.violation {
                            report(-(pairs_runs as i64), m, &h, v);
                        }
                    }
                    i += 64;
                }
            }
        }
        total.runs = 0; // counted separately
    }
    let pairs_ops = total.ops;

    // ---- phase 2: seeded histories
    let next = AtomicU64::new(from);
    let end = from + runs;
    let cur_run: Vec<AtomicU64> = (0..workers).map(|_| AtomicU64::new(u64::MAX)).collect();
    let cur_start: Vec<AtomicU64> = (0..workers).map(|_| AtomicU64::new(0)).collect();
    let done = AtomicU64::new(0);
    let samples: Mutex<BTreeMap<u64, J>> = Mutex::new(BTreeMap::new());
    let accs: Mutex<Vec<Acc>> = Mutex::new(Vec::new());

    let work = |w: usize| {
        let mut acc = Acc::default();
        loop {
            if stop.load(Ordering::SeqCst) {
                break;
            }
            let a = next.fetch_add(256, Ordering::SeqCst);
            if a >= end {
                break;
            }
            let b = (a + 256).min(end);
            for idx in a..b {
                let (m, hist) = gen_run(&el, prop, seed, idx);
                set_cur(idx, m.name, &hist);
                if trace {
                    eprintln!("RUN {} {}", idx, m.name);
                }
                cur_start[w].store(t0.elapsed().as_millis() as u64, Ordering::SeqCst);
                cur_run[w].store(idx, Ordering::SeqCst);
                // Every 32nd run (by default) is hermetic: it executes on a freshly spawned home thread (whose
                // migration helper is therefore fresh too), so that thread-local state inside the
                // generated code starts pristine, exactly as it does when a replay file is executed
                // by a new process. (All runs hermetic would cost a thread spawn per run.)
                let rr = if hermetic_every > 0 && idx % hermetic_every == 0 {
                    hermetic(m, &hist, &opts)
                } else {
                    run_history(m, &hist, &opts)
                };
                cur_run[w].store(u64::MAX, Ordering::SeqCst);
                let mi = el.iter().position(|x| std::ptr::eq(*x, m)).unwrap();
                acc.add_run(idx, mi, m, &hist, &rr.stats, rr.stats.obs_digest);
                if idx - from < 3 {
                    let rr = run_history(m, &hist, &opts_t);
                    samples.lock().unwrap().insert(
                        idx,
                        J::obj(vec![
                            ("run_index", J::Int(idx as i128)),
                            ("module", module_json(m)),
                            ("history", J::s(encode_history(&hist))),
                            ("transcript", transcript_json(&rr.transcript)),
                        ]),
                    );
                }
                if let Some(v) = rr.violation {
                    report(idx as i64, m, &hist, v);
                }
            }
        }
        accs.lock().unwrap().push(acc);
        done.fetch_add(1, Ordering::SeqCst);
    };

    if workers <= 1 {
        work(0);
    } else {
        std::thread::scope(|s| {
            for w in 0..workers {
                let work = &work;
                std::thread::Builder::new()
                    .stack_size(8 << 20)
                    .spawn_scoped(s, move || work(w))
                    .expect("spawn worker");
            }
            // watchdog: the only place real time is read; it can only produce exit 3
            while done.load(Ordering::SeqCst) < workers as u64 {
                std::thread::sleep(std::time::Duration::from_millis(200));
                let now = t0.elapsed().as_millis() as u64;
                for w in 0..workers {
                    let r = cur_run[w].load(Ordering::SeqCst);
                    let st = cur_start[w].load(Ordering::SeqCst);
                    if r != u64::MAX && now.saturating_sub(st) > hang_s * 1000 {
                        // re-read to avoid a torn (run, start) pair
                        if cur_run[w].load(Ordering::SeqCst) == r && cur_start[w].load(Ordering::SeqCst) == st {
                            eprintln!("HANG run={}", r);
                            println!("HANG run={}", r);
                            std::process::exit(3);
                        }
                    }
                }
            }
        });
    }
    for a in accs.into_inner().unwrap() {
        total.merge(a);
    }
    total.nontrivial.sort_unstable();
    total.nontrivial.dedup();
    let wall = t0.elapsed().as_secs_f64();
    let mut found = found.into_inner().unwrap();
    found.sort_by_key(|f| (f.run_index < 0, f.run_index.unsigned_abs()));

    let mapj = |m: &BTreeMap<&'static str, u64>| {
        J::Obj(m.iter().map(|(k, v)| (k.to_string(), J::Int(*v as i128))).collect())
    };
    let j = J::obj(vec![
        ("prop", J::s(prop.id())),
        ("seed", J::Int(seed as i128)),
        ("from", J::Int(from as i128)),
        ("runs", J::Int(total.runs as i128)),
        ("runs_requested", J::Int(runs as i128)),
        ("stopped_early", J::Bool(stop.load(Ordering::SeqCst))),
        ("pairs_runs", J::Int(pairs_runs as i128)),
        ("try_from_sweep_values", J::Int(sweep_values as i128)),
        ("ops", J::Int((total.ops) as i128)),
        ("pairs_ops", J::Int(pairs_ops as i128)),
        ("modules_in_corpus", J::Int(modules.len() as i128)),
        ("modules_eligible", J::Int(el.len() as i128)),
        ("modules_exercised", J::Int(total.per_module.len() as i128)),
        ("digest", J::s(format!("{:016x}", total.digest))),
        ("distinct_nontrivial", J::Int(total.nontrivial.len() as i128)),
        ("distinct_windows", J::Int(total.windows.len() as i128)),
        (
            "fault_kinds_fired",
            J::obj(vec![
                ("interleave_runs", J::Int(total.interleave as i128)),
                ("drop_recreate", J::Int(total.drop_recreate as i128)),
                ("callback_panic", J::Int(total.callback_panic as i128)),
                ("early_exit", J::Int(total.early_exit as i128)),
                ("migrate_ops", J::Int(total.migrate as i128)),
                ("exhaust_then_poke", J::Int(total.exhaust_poke as i128)),
            ]),
        ),
        ("consumed_whole", J::Int(total.consumed_whole as i128)),
        ("hermetic_runs", J::Int(if hermetic_every > 0 { (end + hermetic_every - 1) / hermetic_every - (from + hermetic_every - 1) / hermetic_every } else { 0 } as i128)),
        ("creates", J::obj(vec![
            ("iter", J::Int(total.creates[0] as i128)),
            ("range", J::Int(total.creates[1] as i128)),
            ("names", J::Int(total.creates[2] as i128)),
        ])),
        ("zips", J::Int(total.zips as i128)),
        ("probes", J::Int(total.probes as i128)),
        ("probe_panics", J::Int(total.probe_panics as i128)),
        ("diverged_unreported", J::Int(total.diverged_unreported as i128)),
        ("op_matrix", {
            // rows: mode label / gapless / handle kind; cells: op letters -> count
            let mut rows: BTreeMap<String, Vec<(String, J)>> = BTreeMap::new();
            for ((mode, gl, k, op), c) in &total.matrix {
                let kind = ["iter", "range", "names"][*k as usize];
                let row = format!("{}|{}|{}", mode, if *gl { "gapless" } else { "holes" }, kind);
                rows.entry(row).or_default().push((op.clone(), J::Int(*c as i128)));
            }
            J::Obj(rows.into_iter().map(|(r, cells)| (r, J::Obj(cells))).collect())
        }),
        ("clients_hist", J::Arr(total.clients_hist.iter().map(|x| J::Int(*x as i128)).collect())),
        ("modes_covered", mapj(&total.per_mode)),
        ("shapes_covered", mapj(&total.per_shape)),
        ("wall_s", J::Num(wall)),
        ("samples", J::Arr(samples.into_inner().unwrap().into_values().collect())),
        ("violations", J::Arr(found.iter().map(|f| found_json(f, prop)).collect())),
    ]);
    let text = j.render();
    match out_path {
        Some(p) => {
            if std::fs::write(p, &text).is_err() {
                die("cannot write --out file");
            }
        }
        None => println!("{}", text),
    }
    std::process::exit(if found.is_empty() { 0 } else { 1 })
}
