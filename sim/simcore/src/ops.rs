//! The operation alphabet, its textual encoding (used in replay files), and the history
//! generator. A history is generated up front as a pure function of the PRNG and of the
//! variant count; every operation is legal in every state, so any subsequence of a history
//! is again a history (this is what makes shrinking and replay trivial).

use crate::rng::Rng;

#[derive(Clone, Copy, Debug, PartialEq, Eq, PartialOrd, Ord)]
pub enum Kind {
    Iter,
    Range,
    Names,
}

#[derive(Clone, Debug, PartialEq, Eq)]
pub enum Op {
    // create / destroy
    NewIter,
    NewRange(usize, usize),
    NewNames,
    Drop,
    // &mut steps
    Next,
    NextBack,
    Nth(usize),
    NthBack(usize),
    Len,
    SizeHint,
    // through by_ref(): the handle stays alive
    TakeCollect(usize),
    RevTakeCollect(usize),
    TryFold(usize),
    TryRfold(usize),
    Find(usize),
    Rfind(usize),
    Position(usize),
    Rposition(usize),
    StepByTake(usize, usize),
    SkipNext(usize),
    ForEachPanic(usize),
    All(usize),
    Any(usize),
    // consuming
    Fold,
    Rfold,
    Last,
    Count,
    Collect,
    RevCollect,
    StepBy(usize),
    Skip(usize),
    SkipRev(usize),
    EnumerateRev,
    Max,
    Min,
    MaxBy,
    MinBy,
    MaxByKey,
    MinByKey,
    Reduce,
    ForEach,
    IsSorted,
    FoldPanic(usize),
    RfoldPanic(usize),
    // stand-alone
    /// iter().zip(names()) after skipping k on both; mode 0: zip, 1: rev().zip(rev()), 2: zip().rev()
    Zip(usize, u8),
    /// client probes on the last items this client saw (C02 only)
    Probe,
    /// try_from / TryFrom on one given value of the repr (C02 argument sweep of the narrow reprs)
    TryFrom(i128),
    /// from_str / FromStr on the name of the variant with this sorted index, mutated:
    /// 0 exact, 1 one char appended, 2 last char dropped, 3 case of the first char flipped
    FromStr(usize, u8),
}

#[derive(Clone, Debug, PartialEq, Eq)]
pub struct Event {
    pub client: u8,
    pub op: Op,
    /// execute on a helper OS thread with strict hand-off (spawn, join)
    pub migrate: bool,
}

fn us(n: usize) -> String {
    if n == usize::MAX {
        "max".to_string()
    } else {
        n.to_string()
    }
}

fn parse_us(s: &str) -> Option<usize> {
    if s == "max" {
        Some(usize::MAX)
    } else {
        s.parse().ok()
    }
}

impl Op {
    pub fn encode(&self) -> String {
        use Op::*;
        match self {
            NewIter => "I".into(),
            NewRange(i, j) => format!("R{},{}", i, j),
            NewNames => "M".into(),
            Drop => "D".into(),
            Next => "n".into(),
            NextBack => "b".into(),
            Nth(k) => format!("N{}", us(*k)),
            NthBack(k) => format!("B{}", us(*k)),
            Len => "l".into(),
            SizeHint => "h".into(),
            TakeCollect(k) => format!("tc{}", us(*k)),
            RevTakeCollect(k) => format!("rt{}", us(*k)),
            TryFold(k) => format!("tf{}", us(*k)),
            TryRfold(k) => format!("tr{}", us(*k)),
            Find(k) => format!("fi{}", us(*k)),
            Rfind(k) => format!("rf{}", us(*k)),
            Position(k) => format!("po{}", us(*k)),
            Rposition(k) => format!("rp{}", us(*k)),
            StepByTake(s, k) => format!("sb{},{}", us(*s), us(*k)),
            SkipNext(k) => format!("sn{}", us(*k)),
            ForEachPanic(k) => format!("fe{}", us(*k)),
            Fold => "F".into(),
            Rfold => "G".into(),
            Last => "La".into(),
            Count => "Co".into(),
            Collect => "Cl".into(),
            RevCollect => "Rc".into(),
            StepBy(s) => format!("Sb{}", us(*s)),
            Skip(n) => format!("Sk{}", us(*n)),
            SkipRev(n) => format!("Sr{}", us(*n)),
            EnumerateRev => "Er".into(),
            Max => "Mx".into(),
            Min => "Mn".into(),
            MaxBy => "Mb".into(),
            MinBy => "Nb".into(),
            MaxByKey => "Mk".into(),
            MinByKey => "Nk".into(),
            Reduce => "Re".into(),
            ForEach => "Fe".into(),
            IsSorted => "Is".into(),
            All(k) => format!("al{}", us(*k)),
            Any(k) => format!("an{}", us(*k)),
            FoldPanic(k) => format!("Fp{}", us(*k)),
            RfoldPanic(k) => format!("Gp{}", us(*k)),
            Zip(k, m) => format!("Z{},{}", us(*k), m),
            Probe => "P".into(),
            TryFrom(v) => format!("T{}", v),
            FromStr(i, k) => format!("S{},{}", i, k),
        }
    }

    pub fn decode(s: &str) -> Option<Op> {
        use Op::*;
        let two = |p: &str| -> Option<(usize, usize)> {
            let mut it = p.split(',');
            let a = parse_us(it.next()?)?;
            let b = parse_us(it.next()?)?;
            Some((a, b))
        };
        // two-letter codes first
        if s.len() >= 2 && s.is_char_boundary(2) {
            let (h, t) = s.split_at(2);
            let r = match h {
                "tc" => parse_us(t).map(TakeCollect),
                "rt" => parse_us(t).map(RevTakeCollect),
                "tf" => parse_us(t).map(TryFold),
                "tr" => parse_us(t).map(TryRfold),
                "fi" => parse_us(t).map(Find),
                "rf" => parse_us(t).map(Rfind),
                "po" => parse_us(t).map(Position),
                "rp" => parse_us(t).map(Rposition),
                "sb" => two(t).map(|(a, b)| StepByTake(a, b)),
                "sn" => parse_us(t).map(SkipNext),
                "fe" => parse_us(t).map(ForEachPanic),
                "La" if t.is_empty() => Some(Last),
                "Co" if t.is_empty() => Some(Count),
                "Cl" if t.is_empty() => Some(Collect),
                "Rc" if t.is_empty() => Some(RevCollect),
                "Sb" => parse_us(t).map(StepBy),
                "Sk" => parse_us(t).map(Skip),
                "Sr" => parse_us(t).map(SkipRev),
                "Er" if t.is_empty() => Some(EnumerateRev),
                "Mx" if t.is_empty() => Some(Max),
                "Mn" if t.is_empty() => Some(Min),
                "Mb" if t.is_empty() => Some(MaxBy),
                "Nb" if t.is_empty() => Some(MinBy),
                "Mk" if t.is_empty() => Some(MaxByKey),
                "Nk" if t.is_empty() => Some(MinByKey),
                "Re" if t.is_empty() => Some(Reduce),
                "Fe" if t.is_empty() => Some(ForEach),
                "Is" if t.is_empty() => Some(IsSorted),
                "al" => parse_us(t).map(All),
                "an" => parse_us(t).map(Any),
                "Fp" => parse_us(t).map(FoldPanic),
                "Gp" => parse_us(t).map(RfoldPanic),
                _ => None,
            };
            if r.is_some() {
                return r;
            }
        }
        let (h, t) = s.split_at(1);
        match h {
            "I" if t.is_empty() => Some(NewIter),
            "R" => two(t).map(|(a, b)| NewRange(a, b)),
            "M" if t.is_empty() => Some(NewNames),
            "D" if t.is_empty() => Some(Drop),
            "n" if t.is_empty() => Some(Next),
            "b" if t.is_empty() => Some(NextBack),
            "N" => parse_us(t).map(Nth),
            "B" => parse_us(t).map(NthBack),
            "l" if t.is_empty() => Some(Len),
            "h" if t.is_empty() => Some(SizeHint),
            "F" if t.is_empty() => Some(Fold),
            "G" if t.is_empty() => Some(Rfold),
            "Z" => {
                let (a, b) = two(t)?;
                Some(Zip(a, b as u8))
            }
            "P" if t.is_empty() => Some(Probe),
            "T" => t.parse::<i128>().ok().map(TryFrom),
            "S" => two(t).map(|(a, b)| FromStr(a, b as u8)),
            _ => None,
        }
    }

    /// the letters of the encoding (the operation without its arguments)
    pub fn letters(&self) -> String {
        let a = self.args();
        let base = if a.is_empty() {
            self.encode()
        } else {
            self.with_args(&vec![0; a.len()]).encode()
        };
        base.chars().take_while(|c| c.is_ascii_alphabetic()).collect()
    }

    pub fn is_create(&self) -> bool {
        matches!(self, Op::NewIter | Op::NewRange(..) | Op::NewNames)
    }

    /// consumes the handle
    pub fn is_consuming(&self) -> bool {
        use Op::*;
        matches!(
            self,
            Fold | Rfold
                | Last
                | Count
                | Collect
                | RevCollect
                | StepBy(_)
                | Skip(_)
                | SkipRev(_)
                | EnumerateRev
                | Max
                | Min
                | MaxBy
                | MinBy
                | MaxByKey
                | MinByKey
                | Reduce
                | ForEach
                | IsSorted
                | FoldPanic(_)
                | RfoldPanic(_)
        )
    }

    /// may change the cursor of a live handle
    pub fn is_state_changing(&self) -> bool {
        use Op::*;
        !matches!(self, Len | SizeHint | Zip(..) | Probe | TryFrom(_) | FromStr(..) | Drop) && !self.is_create()
    }

    /// numeric arguments, for shrinking
    pub fn args(&self) -> Vec<usize> {
        use Op::*;
        match self {
            NewRange(a, b) => vec![*a, *b],
            Nth(k) | NthBack(k) | TakeCollect(k) | RevTakeCollect(k) | TryFold(k) | TryRfold(k)
            | Find(k) | Rfind(k) | Position(k) | Rposition(k) | SkipNext(k) | ForEachPanic(k) | All(k) | Any(k)
            | StepBy(k) | Skip(k) | SkipRev(k) | FoldPanic(k) | RfoldPanic(k) => vec![*k],
            StepByTake(a, b) => vec![*a, *b],
            Zip(k, m) => vec![*k, *m as usize],
            _ => vec![],
        }
    }

    pub fn with_args(&self, a: &[usize]) -> Op {
        use Op::*;
        match self {
            NewRange(..) => NewRange(a[0], a[1]),
            Nth(_) => Nth(a[0]),
            NthBack(_) => NthBack(a[0]),
            TakeCollect(_) => TakeCollect(a[0]),
            RevTakeCollect(_) => RevTakeCollect(a[0]),
            TryFold(_) => TryFold(a[0]),
            TryRfold(_) => TryRfold(a[0]),
            Find(_) => Find(a[0]),
            Rfind(_) => Rfind(a[0]),
            Position(_) => Position(a[0]),
            Rposition(_) => Rposition(a[0]),
            SkipNext(_) => SkipNext(a[0]),
            ForEachPanic(_) => ForEachPanic(a[0]),
            All(_) => All(a[0]),
            Any(_) => Any(a[0]),
            StepBy(_) => StepBy(a[0].max(1)),
            Skip(_) => Skip(a[0]),
            SkipRev(_) => SkipRev(a[0]),
            FoldPanic(_) => FoldPanic(a[0]),
            RfoldPanic(_) => RfoldPanic(a[0]),
            StepByTake(..) => StepByTake(a[0].max(1), a[1]),
            Zip(..) => Zip(a[0], (a[1] % 3) as u8),
            o => o.clone(),
        }
    }
}

pub fn encode_history(h: &[Event]) -> String {
    let mut s = String::new();
    for (i, e) in h.iter().enumerate() {
        if i > 0 {
            s.push(' ');
        }
        s.push_str(&format!(
            "{}:{}{}",
            e.client,
            e.op.encode(),
            if e.migrate { "@" } else { "" }
        ));
    }
    s
}

pub fn decode_history(s: &str) -> Option<Vec<Event>> {
    let mut v = Vec::new();
    for tok in s.split_whitespace() {
        let (c, rest) = tok.split_once(':')?;
        let client: u8 = c.parse().ok()?;
        let (code, migrate) = match rest.strip_suffix('@') {
            Some(r) => (r, true),
            None => (rest, false),
        };
        v.push(Event {
            client,
            op: Op::decode(code)?,
            migrate,
        });
    }
    Some(v)
}

/// What a check is allowed to generate (one property per check id).
#[derive(Clone, Copy, Debug, PartialEq, Eq)]
pub enum Prop {
    C02,
    C06,
    C07,
    C08,
}

impl Prop {
    pub fn parse(s: &str) -> Option<Prop> {
        Some(match s {
            "C02" => Prop::C02,
            "C06" => Prop::C06,
            "C07" => Prop::C07,
            "C08" => Prop::C08,
            _ => return None,
        })
    }
    pub fn id(&self) -> &'static str {
        match self {
            Prop::C02 => "C02",
            Prop::C06 => "C06",
            Prop::C07 => "C07",
            Prop::C08 => "C08",
        }
    }
}

/// What the module under simulation offers (which constructors exist).
#[derive(Clone, Copy, Debug)]
pub struct Caps {
    pub n: usize,
    pub iter: bool,
    pub range: bool,
    pub names: bool,
}

impl Caps {
    pub fn kinds_for(&self, prop: Prop) -> Vec<Kind> {
        let mut v = Vec::new();
        match prop {
            Prop::C06 => {
                if self.iter {
                    v.push(Kind::Iter)
                }
            }
            Prop::C07 => {
                if self.range {
                    v.push(Kind::Range)
                }
            }
            Prop::C08 => {
                if self.names {
                    v.push(Kind::Names)
                }
            }
            Prop::C02 => {
                if self.iter {
                    v.push(Kind::Iter)
                }
                if self.range {
                    v.push(Kind::Range);
                    v.push(Kind::Range);
                }
                if self.names {
                    v.push(Kind::Names)
                }
            }
        }
        v
    }
}

fn boundary(rng: &mut Rng, rem: usize) -> usize {
    // arguments that only differ from a small one in bits a narrower integer would drop
    // (an implementation keeping its cursor in a u8/u16/u32 must not truncate the argument)
    if rng.chance(1, 16) {
        let small = rng.below(rem as u64 + 2) as usize;
        return match rng.below(5) {
            0 => (1usize << 8) + small,
            1 => (1usize << 16) + small,
            2 => (1usize << 32) + small,
            3 => usize::MAX - small,
            _ => (1usize << 63) + small,
        };
    }
    // widths of the integer types an implementation might keep an index or a count in
    if rem > 100 && rng.chance(1, 12) {
        let c = *rng.pick(&[126usize, 127, 128, 129, 254, 255, 256, 257, 32767, 32768, 65535, 65536]);
        if c <= rem + 2 {
            return c;
        }
    }
    match rng.below(10) {
        0 => 0,
        1 => 1,
        2 => 2,
        3 => rem.saturating_sub(1),
        4 => rem,
        5 => rem.saturating_add(1),
        6 => usize::MAX,
        7 => rem / 2,
        _ => rng.below(rem as u64 + 3) as usize,
    }
}

fn small_boundary(rng: &mut Rng, rem: usize) -> usize {
    // like `boundary` but never astronomically large (for counts of callback invocations)
    match rng.below(8) {
        0 => 0,
        1 => 1,
        2 => 2,
        3 => rem.saturating_sub(1),
        4 => rem,
        5 => rem.saturating_add(1),
        _ => rng.below(rem as u64 + 3) as usize,
    }
}

pub fn range_pair(rng: &mut Rng, n: usize) -> (usize, usize) {
    let r = |rng: &mut Rng| rng.below(n as u64) as usize;
    // index distances at the widths of narrower integer types (large enums only)
    if n > 130 && rng.chance(1, 8) {
        let d = *rng.pick(&[126usize, 127, 128, 129, 254, 255, 256, 257, 32767, 32768, 65535]);
        if d < n {
            let i = rng.below((n - d) as u64) as usize;
            return if rng.chance(4, 5) { (i, i + d) } else { (i + d, i) };
        }
    }
    match rng.below(8) {
        0 => (0, n - 1),
        1 => {
            let i = r(rng);
            (i, i)
        }
        2 if n >= 2 => {
            let j = rng.below(n as u64 - 1) as usize;
            (j + 1, j)
        }
        3 if n >= 3 => {
            let j = rng.below(n as u64 - 2) as usize;
            let i = j + 2 + rng.below((n - j - 2) as u64) as usize;
            (i, j)
        }
        4 => (n - 1, 0),
        _ => {
            let a = r(rng);
            let b = r(rng);
            if rng.chance(3, 4) {
                (a.min(b), a.max(b))
            } else {
                (a, b)
            }
        }
    }
}

/// swarm-style profile of one run
#[derive(Clone, Debug)]
pub struct Profile {
    pub clients: usize,
    pub steps: usize,
    /// weights: step, nth, query, by_ref, consuming, fault_panic, drop/recreate, zip/probe
    pub w: [u32; 8],
    pub migrate_pct: u64,
}

pub fn draw_profile(rng: &mut Rng, prop: Prop) -> Profile {
    let clients = match rng.below(20) {
        0..=9 => 1,
        10..=14 => 2,
        15..=17 => 3,
        _ => 4,
    };
    let steps = match rng.below(40) {
        0..=19 => rng.range(1, 12),
        20..=37 => rng.range(8, 64),
        // now and then a long history
        _ => rng.range(64, 200),
    } as usize;
    let mut w = [0u32; 8];
    for x in w.iter_mut() {
        *x = if rng.chance(1, 4) { 0 } else { rng.range(1, 8) as u32 };
    }
    if w[0] == 0 && w[1] == 0 && w[3] == 0 {
        w[0] = 4;
    }
    // stand-alone ops only where the property speaks about them
    match prop {
        Prop::C08 | Prop::C02 => {}
        _ => w[7] = 0,
    }
    let migrate_pct = if rng.chance(1, 4) { rng.range(5, 40) } else { 0 };
    Profile {
        clients,
        steps,
        w,
        migrate_pct,
    }
}

/// remaining length of a correct iterator after `op` (used only to aim arguments at boundaries)
fn rem_after(op: &Op, rem: usize) -> usize {
    use Op::*;
    match op {
        Next | NextBack => rem.saturating_sub(1),
        Nth(k) | NthBack(k) | SkipNext(k) => rem - rem.min(k.saturating_add(1)),
        TakeCollect(k) | RevTakeCollect(k) | TryFold(k) | TryRfold(k) | Find(k) | Rfind(k)
        | Position(k) | Rposition(k) | ForEachPanic(k) | All(k) | Any(k) => rem - rem.min(*k),
        StepByTake(s, k) => {
            if *k == 0 {
                rem
            } else {
                rem - rem.min(1usize.saturating_add((k - 1).saturating_mul(*s)))
            }
        }
        _ => rem,
    }
}

pub fn generate(rng: &mut Rng, caps: Caps, prop: Prop) -> (Vec<Event>, Profile) {
    let profile = draw_profile(rng, prop);
    let kinds = caps.kinds_for(prop);
    assert!(!kinds.is_empty());
    let n = caps.n;
    // per client: Some((kind, rem)) when a handle is live
    let mut live: Vec<Option<(Kind, usize)>> = vec![None; profile.clients];
    let mut h = Vec::with_capacity(profile.steps);
    let zip_ok = caps.iter && caps.names && matches!(prop, Prop::C08);
    let probe_ok = matches!(prop, Prop::C02);

    while h.len() < profile.steps {
        let c = rng.below(profile.clients as u64) as usize;
        let migrate = profile.migrate_pct > 0 && rng.below(100) < profile.migrate_pct;
        let push = |h: &mut Vec<Event>, op: Op| {
            h.push(Event {
                client: c as u8,
                op,
                migrate,
            })
        };
        let (kind, rem) = match live[c] {
            None => {
                // create
                let k = *rng.pick(&kinds);
                let (op, rem) = match k {
                    Kind::Iter => (Op::NewIter, n),
                    Kind::Names => (Op::NewNames, n),
                    Kind::Range => {
                        let (i, j) = range_pair(rng, n);
                        (Op::NewRange(i, j), if i <= j { j - i + 1 } else { 0 })
                    }
                };
                live[c] = Some((k, rem));
                push(&mut h, op);
                continue;
            }
            Some(x) => x,
        };
        let _ = kind;
        // exhausted handle: sometimes poke it a few times
        if rem == 0 && rng.chance(1, 2) {
            let burst = rng.range(1, 4);
            for _ in 0..burst {
                let op = match rng.below(6) {
                    0 => Op::Next,
                    1 => Op::NextBack,
                    2 => Op::Nth(boundary(rng, 0)),
                    3 => Op::NthBack(boundary(rng, 0)),
                    4 => Op::Len,
                    _ => Op::SizeHint,
                };
                push(&mut h, op);
            }
            continue;
        }
        let class = rng.weighted(&profile.w);
        let op = match class {
            0 => {
                if rng.chance(1, 2) {
                    Op::Next
                } else {
                    Op::NextBack
                }
            }
            1 => {
                let k = boundary(rng, rem);
                if rng.chance(1, 2) {
                    Op::Nth(k)
                } else {
                    Op::NthBack(k)
                }
            }
            2 => {
                if rng.chance(1, 2) {
                    Op::Len
                } else {
                    Op::SizeHint
                }
            }
            3 => {
                let k = small_boundary(rng, rem);
                match rng.below(12) {
                    10 => Op::All(k),
                    11 => Op::Any(k),
                    0 => Op::TakeCollect(boundary(rng, rem)),
                    1 => Op::RevTakeCollect(boundary(rng, rem)),
                    2 => Op::TryFold(k),
                    3 => Op::TryRfold(k),
                    4 => Op::Find(k),
                    5 => Op::Rfind(k),
                    6 => Op::Position(k),
                    7 => Op::Rposition(k),
                    8 => {
                        let s = match rng.below(4) {
                            0 => 1,
                            1 => 2,
                            2 => rem.max(1),
                            _ => rng.range(1, rem as u64 + 2) as usize,
                        };
                        Op::StepByTake(s, small_boundary(rng, rem / s.max(1) + 1))
                    }
                    _ => Op::SkipNext(boundary(rng, rem)),
                }
            }
            4 => match rng.below(19) {
                10 => Op::Max,
                11 => Op::Min,
                12 => Op::MaxBy,
                13 => Op::MinBy,
                14 => Op::MaxByKey,
                15 => Op::MinByKey,
                16 => Op::Reduce,
                17 => Op::ForEach,
                18 => Op::IsSorted,
                0 => Op::Fold,
                1 => Op::Rfold,
                2 => Op::Last,
                3 => Op::Count,
                4 => Op::Collect,
                5 => Op::RevCollect,
                6 => Op::StepBy(match rng.below(3) {
                    0 => 1,
                    1 => 2,
                    _ => rng.range(1, rem as u64 + 2) as usize,
                }),
                7 => Op::Skip(boundary(rng, rem)),
                8 => Op::SkipRev(boundary(rng, rem)),
                _ => Op::EnumerateRev,
            },
            5 => {
                let k = small_boundary(rng, rem).max(1);
                match rng.below(3) {
                    0 => Op::FoldPanic(k),
                    1 => Op::RfoldPanic(k),
                    _ => Op::ForEachPanic(k),
                }
            }
            6 => {
                if rng.chance(1, 2) {
                    Op::Drop
                } else {
                    let k = *rng.pick(&kinds);
                    match k {
                        Kind::Iter => Op::NewIter,
                        Kind::Names => Op::NewNames,
                        Kind::Range => {
                            let (i, j) = range_pair(rng, n);
                            Op::NewRange(i, j)
                        }
                    }
                }
            }
            _ => {
                if zip_ok {
                    Op::Zip(boundary(rng, n).min(n + 1), rng.below(3) as u8)
                } else if probe_ok {
                    Op::Probe
                } else {
                    Op::Len
                }
            }
        };
        // bookkeeping of the aiming heuristic
        match &op {
            Op::Drop => live[c] = None,
            Op::NewIter => live[c] = Some((Kind::Iter, n)),
            Op::NewNames => live[c] = Some((Kind::Names, n)),
            Op::NewRange(i, j) => {
                live[c] = Some((Kind::Range, if i <= j { j - i + 1 } else { 0 }))
            }
            o if o.is_consuming() => live[c] = None,
            o => live[c] = Some((kind, rem_after(o, rem))),
        }
        push(&mut h, op);
    }
    (h, profile)
}

#[cfg(test)]
mod tests {
    use super::*;
    #[test]
    fn roundtrip() {
        for i in 0..2000 {
            let mut rng = Rng::stream(1, 2, i);
            let caps = Caps {
                n: 1 + (i as usize % 40),
                iter: true,
                range: true,
                names: true,
            };
            for prop in [Prop::C02, Prop::C06, Prop::C07, Prop::C08] {
                let (h, _) = generate(&mut rng, caps, prop);
                let s = encode_history(&h);
                assert_eq!(decode_history(&s).unwrap(), h, "{}", s);
            }
        }
    }
}
