//! Descriptor of one corpus module = one (declaration, configuration) pair, plus the
//! native validity observer for C02.

use crate::dynit::BoxIter;
use std::cell::RefCell;

pub struct Module {
    pub name: &'static str,
    /// repr type name
    pub repr: &'static str,
    /// iterator mode as written in the attribute ("none" if iter is not enabled)
    pub iter_mode: &'static str,
    /// shape tags given by the corpus generator (e.g. "holes,neg_later_run,touches_min")
    pub shape: &'static str,
    /// the attribute line, for reports
    pub config: &'static str,
    /// the corpus enum carries a hand-written `Ord` that is the REVERSE of discriminant order
    /// (an implementation must not assume that ascending discriminants are ascending items)
    pub ord_reversed: bool,
    /// ground truth, sorted by discriminant: (discriminant, name)
    pub disc: &'static [i128],
    pub names: &'static [&'static str],
    /// `ALL[i] as repr as i128` with plain casts: validates the generator's arithmetic
    pub cast: fn(usize) -> i128,

    pub new_iter: Option<fn() -> BoxIter<i128>>,
    pub new_range: Option<fn(usize, usize) -> BoxIter<i128>>,
    pub new_names: Option<fn() -> BoxIter<&'static str>>,

    // client probes (the sampled, argument-shaped slice of C02; also used by the C08 zip invariant)
    /// sel 0: `v as repr`, 1: repr::MIN, 2: repr::MAX
    pub try_from: Option<fn(u8, i128) -> Option<i128>>,
    pub try_from_trait: Option<fn(u8, i128) -> Option<i128>>,
    pub as_str: Option<fn(usize) -> &'static str>,
    pub from_str: Option<fn(&str) -> Option<i128>>,
    pub from_str_trait: Option<fn(&str) -> Option<i128>>,
    pub next: Option<fn(usize) -> Option<i128>>,
    pub next_back: Option<fn(usize) -> Option<i128>>,
    pub min: Option<fn() -> i128>,
    pub max: Option<fn() -> i128>,
}

impl Module {
    pub fn n(&self) -> usize {
        self.disc.len()
    }
    pub fn gapless(&self) -> bool {
        let n = self.disc.len();
        self.disc[n - 1] - self.disc[0] == (n as i128 - 1)
    }
}

thread_local! {
    /// set by `enum_value` when generated code hands out a bit pattern that is not a declared variant
    static INVALID: RefCell<Option<(i128, &'static str)>> = const { RefCell::new(None) };
}

/// Observer 1 of DESIGN §4.6: `raw` are the bytes of an enum value that just crossed the
/// API, read *before* any cast or comparison touched it.
#[inline]
pub fn enum_value(raw: i128, disc: &'static [i128], module: &'static str) -> i128 {
    if disc.binary_search(&raw).is_err() {
        INVALID.with(|c| {
            let mut c = c.borrow_mut();
            if c.is_none() {
                *c = Some((raw, module));
            }
        });
    }
    raw
}

pub fn take_invalid() -> Option<(i128, &'static str)> {
    INVALID.with(|c| c.borrow_mut().take())
}
