//! Executes a history against the generated code and against the reference model.
//!
//! `apply` is one generic function; it is instantiated for `Dyn<i128>` and `Dyn<&str>`
//! and is run, with the same arguments, once on the struct under test and once on
//! `std::vec::IntoIter` over the ground-truth list. Whatever `core`'s own iterator does
//! for an operation is by definition the expected answer.

use crate::dynit::{model, model_ord, Dyn, Item};
use crate::module::{take_invalid, Module};
use crate::ops::{Event, Kind, Op, Prop};
use std::fmt::Write as _;
use std::ops::ControlFlow;
use std::panic::{catch_unwind, AssertUnwindSafe};

/// payload of a panic raised on purpose by a simulated callback
pub struct CallbackPanic;

/// No corpus enum has anywhere near this many variants: an iterator that yields more is broken
/// (e.g. never ends), and the harness must not follow it into the allocator.
const ITEM_LIMIT: usize = 1 << 20;

fn too_many() -> ! {
    panic!("the iterator yielded more than 2^20 items")
}

fn opt<T: Item>(o: &Option<T>) -> String {
    match o {
        Some(x) => format!("Some({})", x.render()),
        None => "None".to_string(),
    }
}

fn list<T: Item>(out: &mut String, v: &[T]) {
    out.push('[');
    for (i, x) in v.iter().enumerate() {
        if i > 0 {
            out.push(',');
        }
        out.push_str(&x.render());
    }
    out.push(']');
}

/// Observation buffer: `text` is what is compared between the two sides; `items` are the
/// items handed out so far (kept so that a probe can pick the last ones).
pub struct ObsBuf<T> {
    pub text: String,
    pub items: Vec<T>,
}

impl<T: Item> ObsBuf<T> {
    fn new() -> Self {
        ObsBuf {
            text: String::new(),
            items: Vec::new(),
        }
    }
    fn see(&mut self, x: &T) {
        if self.items.len() > ITEM_LIMIT {
            too_many();
        }
        if !self.text.is_empty() {
            self.text.push(',');
        }
        self.text.push_str(&x.render());
        self.items.push(x.clone());
    }
    fn see_opt(&mut self, o: &Option<T>) {
        self.text.push_str(&opt(o));
        if let Some(x) = o {
            self.items.push(x.clone());
        }
    }
    fn see_list(&mut self, v: &[T]) {
        list(&mut self.text, v);
        self.items.extend(v.iter().cloned());
    }
}

/// Applies one operation to one handle. Writes the observation progressively, so that
/// what was observed before a panic is still there after the unwind.
pub fn apply<T: Item>(h: &mut Option<Dyn<T>>, op: &Op, out: &mut ObsBuf<T>) {
    use Op::*;
    // An operation that collects would reserve `size_hint().0` items up front. No corpus enum
    // has more than a few thousand variants, so a larger claim is already the observation; do
    // not let the harness die in the allocator because of it (both sides run this same code).
    if matches!(
        op,
        Collect | RevCollect | StepBy(_) | Skip(_) | SkipRev(_) | EnumerateRev | TakeCollect(_)
            | RevTakeCollect(_) | StepByTake(..)
    ) {
        if let Some(it) = h.as_ref() {
            let sh = it.size_hint();
            if sh.0 > (1 << 24) {
                let _ = write!(out.text, "refusing to collect: size_hint {:?}", sh);
                *h = None;
                return;
            }
        }
    }
    if op.is_consuming() {
        let it = match h.take() {
            Some(it) => it,
            None => {
                out.text.push_str("-");
                return;
            }
        };
        match op {
            Fold => {
                // straight at the object-safe level: checks the threaded accumulator too
                let mut seen = Vec::new();
                let r = it.0.fold(7, &mut |a, x| {
                    if seen.len() > ITEM_LIMIT {
                        too_many();
                    }
                    seen.push(x);
                    a.wrapping_mul(31).wrapping_add(seen.len() as u64)
                });
                out.see_list(&seen);
                let _ = write!(out.text, "=>{}", r);
            }
            Rfold => {
                let mut seen = Vec::new();
                let r = it.0.rfold(7, &mut |a, x| {
                    if seen.len() > ITEM_LIMIT {
                        too_many();
                    }
                    seen.push(x);
                    a.wrapping_mul(31).wrapping_add(seen.len() as u64)
                });
                out.see_list(&seen);
                let _ = write!(out.text, "=>{}", r);
            }
            Last => {
                let r = it.last();
                out.see_opt(&r);
            }
            Count => {
                let r = it.count();
                let _ = write!(out.text, "{}", r);
            }
            Collect => {
                let v: Vec<T> = it.take(ITEM_LIMIT + 1).collect();
                if v.len() > ITEM_LIMIT {
                    too_many();
                }
                out.see_list(&v);
            }
            RevCollect => {
                let v: Vec<T> = it.rev().take(ITEM_LIMIT + 1).collect();
                if v.len() > ITEM_LIMIT {
                    too_many();
                }
                out.see_list(&v);
            }
            StepBy(s) => {
                let v: Vec<T> = it.step_by((*s).max(1)).take(ITEM_LIMIT + 1).collect();
                if v.len() > ITEM_LIMIT {
                    too_many();
                }
                out.see_list(&v);
            }
            Skip(n) => {
                let v: Vec<T> = it.skip(*n).take(ITEM_LIMIT + 1).collect();
                if v.len() > ITEM_LIMIT {
                    too_many();
                }
                out.see_list(&v);
            }
            SkipRev(n) => {
                let v: Vec<T> = it.skip(*n).rev().take(ITEM_LIMIT + 1).collect();
                if v.len() > ITEM_LIMIT {
                    too_many();
                }
                out.see_list(&v);
            }
            EnumerateRev => {
                let v: Vec<(usize, T)> = it.enumerate().rev().take(ITEM_LIMIT + 1).collect();
                if v.len() > ITEM_LIMIT {
                    too_many();
                }
                out.text.push('[');
                for (i, x) in v {
                    let _ = write!(out.text, "{}:{},", i, x.render());
                    out.items.push(x);
                }
                out.text.push(']');
            }
            Max => {
                let r = it.max();
                out.see_opt(&r);
            }
            Min => {
                let r = it.min();
                out.see_opt(&r);
            }
            MaxBy => {
                let r = it.max_by(|a, b| b.cmp(a));
                out.see_opt(&r);
            }
            MinBy => {
                let r = it.min_by(|a, b| b.cmp(a));
                out.see_opt(&r);
            }
            MaxByKey => {
                let r = it.0.max_by_key(&mut |x| x.key());
                out.see_opt(&r);
            }
            MinByKey => {
                let r = it.0.min_by_key(&mut |x| x.key());
                out.see_opt(&r);
            }
            Reduce => {
                let mut calls = 0usize;
                let r = it.reduce(|a, b| {
                    calls += 1;
                    if b.key() >= a.key() {
                        b
                    } else {
                        a
                    }
                });
                out.see_opt(&r);
                let _ = write!(out.text, "/{}", calls);
            }
            ForEach => {
                it.for_each(|x| out.see(&x));
                out.text.push_str(";done");
            }
            IsSorted => {
                let r = it.is_sorted();
                let _ = write!(out.text, "{}", r);
            }
            FoldPanic(k) => {
                let mut c = 0usize;
                it.0.fold(0, &mut |a, x| {
                    c += 1;
                    if c == *k {
                        std::panic::panic_any(CallbackPanic);
                    }
                    out.see(&x);
                    a
                });
                out.text.push_str(";done");
            }
            RfoldPanic(k) => {
                let mut c = 0usize;
                it.0.rfold(0, &mut |a, x| {
                    c += 1;
                    if c == *k {
                        std::panic::panic_any(CallbackPanic);
                    }
                    out.see(&x);
                    a
                });
                out.text.push_str(";done");
            }
            _ => unreachable!(),
        }
        return;
    }
    let it = match h.as_mut() {
        Some(it) => it,
        None => {
            out.text.push_str("-");
            return;
        }
    };
    match op {
        Next => {
            let r = it.next();
            out.see_opt(&r);
        }
        NextBack => {
            let r = it.next_back();
            out.see_opt(&r);
        }
        Nth(k) => {
            let r = it.nth(*k);
            out.see_opt(&r);
        }
        NthBack(k) => {
            let r = it.nth_back(*k);
            out.see_opt(&r);
        }
        Len => {
            let _ = write!(out.text, "{}", it.len());
        }
        SizeHint => {
            let _ = write!(out.text, "{:?}", it.size_hint());
        }
        TakeCollect(k) => {
            let v: Vec<T> = it.by_ref().take((*k).min(ITEM_LIMIT + 1)).collect();
            if v.len() > ITEM_LIMIT {
                too_many();
            }
            out.see_list(&v);
        }
        RevTakeCollect(k) => {
            let v: Vec<T> = it.by_ref().rev().take((*k).min(ITEM_LIMIT + 1)).collect();
            if v.len() > ITEM_LIMIT {
                too_many();
            }
            out.see_list(&v);
        }
        TryFold(k) => {
            let mut c = 0usize;
            let r = it.try_fold(0usize, |a, x| {
                c += 1;
                out.see(&x);
                if c == *k {
                    ControlFlow::Break(a)
                } else {
                    ControlFlow::Continue(a + 1)
                }
            });
            let _ = write!(out.text, ";{:?}", r);
        }
        TryRfold(k) => {
            let mut c = 0usize;
            let r = it.try_rfold(0usize, |a, x| {
                c += 1;
                out.see(&x);
                if c == *k {
                    ControlFlow::Break(a)
                } else {
                    ControlFlow::Continue(a + 1)
                }
            });
            let _ = write!(out.text, ";{:?}", r);
        }
        Find(k) => {
            let mut c = 0usize;
            let r = it.find(|_| {
                c += 1;
                c == *k
            });
            out.see_opt(&r);
        }
        Rfind(k) => {
            let mut c = 0usize;
            let r = it.rfind(|_| {
                c += 1;
                c == *k
            });
            out.see_opt(&r);
        }
        Position(k) => {
            let mut c = 0usize;
            let r = it.position(|_| {
                c += 1;
                c == *k
            });
            let _ = write!(out.text, "{:?}", r);
        }
        Rposition(k) => {
            let mut c = 0usize;
            let r = it.0.rposition(&mut |_| {
                c += 1;
                c == *k
            });
            let _ = write!(out.text, "{:?}", r);
        }
        StepByTake(s, k) => {
            let v: Vec<T> = it
                .by_ref()
                .step_by((*s).max(1))
                .take((*k).min(ITEM_LIMIT + 1))
                .collect();
            if v.len() > ITEM_LIMIT {
                too_many();
            }
            out.see_list(&v);
        }
        SkipNext(k) => {
            let r = it.by_ref().skip(*k).next();
            out.see_opt(&r);
        }
        All(k) => {
            let mut c = 0usize;
            let r = it.all(|x| {
                c += 1;
                out.see(&x);
                c != *k
            });
            let _ = write!(out.text, ";{}", r);
        }
        Any(k) => {
            let mut c = 0usize;
            let r = it.any(|x| {
                c += 1;
                out.see(&x);
                c == *k
            });
            let _ = write!(out.text, ";{}", r);
        }
        ForEachPanic(k) => {
            let mut c = 0usize;
            it.by_ref().for_each(|x| {
                c += 1;
                if c == *k {
                    std::panic::panic_any(CallbackPanic);
                }
                out.see(&x);
            });
            out.text.push_str(";done");
        }
        _ => {
            out.text.push('?');
        }
    }
}

type Job = Box<dyn FnOnce() + Send + 'static>;

struct Helper {
    tx: std::sync::mpsc::Sender<Job>,
    done: std::sync::mpsc::Receiver<()>,
}

thread_local! {
    static HELPER: std::cell::RefCell<Option<Helper>> = const { std::cell::RefCell::new(None) };
}

/// Runs `f` on this worker's helper OS thread and waits for it (strict hand-off: the caller
/// is blocked for the whole time, so exactly one of the two threads is runnable and the
/// execution replays exactly). One persistent helper per worker: spawning a thread per
/// migrated operation made sixteen workers fight over the process's mmap lock.
fn on_helper<'a, R: Send + 'a>(f: impl FnOnce() -> R + Send + 'a) -> R {
    let mut slot: Option<R> = None;
    {
        struct SendPtr<T>(*mut T);
        unsafe impl<T> Send for SendPtr<T> {}
        let slot_ptr = SendPtr(&mut slot as *mut Option<R>);
        let job: Box<dyn FnOnce() + Send + 'a> = Box::new(move || {
            let p = slot_ptr;
            // Safety: see below; the slot outlives the job and nobody else touches it meanwhile
            unsafe { *p.0 = Some(f()) };
        });
        // Safety: the job is executed and finished before this function returns (we block on
        // `done`), so everything it borrows outlives it; only the lifetime is erased.
        let job: Job = unsafe { std::mem::transmute(job) };
        HELPER.with(|h| {
            let mut h = h.borrow_mut();
            if h.is_none() {
                let (tx, rx) = std::sync::mpsc::channel::<Job>();
                let (dtx, drx) = std::sync::mpsc::channel::<()>();
                std::thread::Builder::new()
                    .name("migrate-helper".into())
                    .stack_size(1 << 20)
                    .spawn(move || {
                        for job in rx {
                            job();
                            if dtx.send(()).is_err() {
                                break;
                            }
                        }
                    })
                    .expect("spawn helper");
                *h = Some(Helper { tx, done: drx });
            }
            let hh = h.as_ref().unwrap();
            hh.tx.send(job).expect("helper alive");
            hh.done.recv().expect("helper finished the job");
        });
    }
    slot.expect("helper produced a result")
}

#[derive(Clone, Debug, PartialEq, Eq)]
pub enum Outcome {
    Ok,
    CallbackPanic,
    Panic(String),
}

fn guarded<T: Item>(h: &mut Option<Dyn<T>>, op: &Op, migrate: bool) -> (ObsBuf<T>, Outcome) {
    let mut out = ObsBuf::new();
    let r = if migrate {
        // the handle travels to a helper thread and back; strict hand-off, never two runnable
        let out = &mut out;
        let h = &mut *h;
        on_helper(move || catch_unwind(AssertUnwindSafe(|| apply(h, op, out))))
    } else {
        catch_unwind(AssertUnwindSafe(|| apply(h, op, &mut out)))
    };
    let oc = match r {
        Ok(()) => Outcome::Ok,
        Err(p) => {
            if p.is::<CallbackPanic>() {
                Outcome::CallbackPanic
            } else if let Some(s) = p.downcast_ref::<&'static str>() {
                Outcome::Panic((*s).to_string())
            } else if let Some(s) = p.downcast_ref::<String>() {
                Outcome::Panic(s.clone())
            } else {
                Outcome::Panic("<payload>".into())
            }
        }
    };
    (out, oc)
}

fn guarded_plain<R>(f: impl FnOnce() -> R) -> Result<R, String> {
    catch_unwind(AssertUnwindSafe(f)).map_err(|p| {
        if let Some(s) = p.downcast_ref::<&'static str>() {
            (*s).to_string()
        } else if let Some(s) = p.downcast_ref::<String>() {
            s.clone()
        } else {
            "<payload>".into()
        }
    })
}

struct Slot<T: Item> {
    kind: Kind,
    sut: Option<Dyn<T>>,
    model: Option<Dyn<T>>,
    /// offset of the model list inside the full sorted list (for the window measure)
    base: usize,
    total: usize,
    seen_none: bool,
    last_len: usize,
    /// items taken from the front / from the back so far (model side)
    front: usize,
    back: usize,
}

enum Handle {
    E(Slot<i128>),
    S(Slot<&'static str>),
}

#[derive(Clone, Debug, PartialEq, Eq)]
pub struct Violation {
    /// which observer fired: "mismatch" | "panic" | "poststate" | "len_increase" | "unfused" |
    /// "create_panic" | "zip" | "invalid_enum"
    pub class: String,
    pub kind: Option<Kind>,
    pub step: usize,
    pub op: String,
    pub expected: String,
    pub observed: String,
}

impl Violation {
    /// what shrinking must preserve
    pub fn signature(&self) -> (String, Option<Kind>) {
        (self.class.clone(), self.kind)
    }
}

#[derive(Default, Clone, Debug)]
pub struct RunStats {
    pub ops: u64,
    pub state_changing: u64,
    pub visited_partial: bool,
    pub interleave: bool,
    pub drop_recreate: u64,
    pub callback_panic: u64,
    pub early_exit: u64,
    pub migrate: u64,
    pub exhaust_poke: u64,
    pub consumed_whole: u64,
    pub probes: u64,
    pub probe_panics: u64,
    pub zips: u64,
    pub creates: [u64; 3],
    /// C02 runs do not assert model equality; divergences are only counted
    pub diverged_unreported: u64,
    /// FNV over every observation of the struct under test (event log digest)
    pub obs_digest: u64,
    /// operations that were applied to a live handle, as (handle kind, index into the history)
    pub applied: Vec<(Kind, u16)>,
    /// distinct (front, back) windows are accumulated by the caller from this list
    pub windows: Vec<(u32, u32)>,
}

pub struct RunResult {
    pub violation: Option<Violation>,
    pub stats: RunStats,
    /// (client, op, observation of the struct under test)
    pub transcript: Vec<(u8, String, String)>,
}

fn trunc(s: &str) -> String {
    if s.len() > 600 {
        let mut e = 600;
        while !s.is_char_boundary(e) {
            e -= 1;
        }
        format!("{}…(+{} bytes)", &s[..e], s.len() - e)
    } else {
        s.to_string()
    }
}

pub struct ExecOpts {
    pub prop: Prop,
    pub want_transcript: bool,
}

pub fn run_history(m: &'static Module, history: &[Event], opts: &ExecOpts) -> RunResult {
    let n = m.n();
    let mut slots: Vec<Option<Handle>> = Vec::new();
    let mut recent: Vec<Vec<i128>> = Vec::new();
    let mut recent_names: Vec<Vec<&'static str>> = Vec::new();
    let mut stats = RunStats::default();
    let mut transcript = Vec::new();
    let compare = opts.prop != Prop::C02;
    let mut last_client: Option<u8> = None;
    let _ = take_invalid();

    macro_rules! fail {
        ($class:expr, $kind:expr, $step:expr, $op:expr, $exp:expr, $obs:expr) => {
            return RunResult {
                violation: Some(Violation {
                    class: $class.to_string(),
                    kind: $kind,
                    step: $step,
                    op: $op,
                    expected: trunc(&$exp),
                    observed: trunc(&$obs),
                }),
                stats,
                transcript,
            }
        };
    }

    for (step, ev) in history.iter().enumerate() {
        let c = ev.client as usize;
        while slots.len() <= c {
            slots.push(None);
            recent.push(Vec::new());
            recent_names.push(Vec::new());
        }
        stats.ops += 1;
        let op_s = ev.op.encode();
        if let Some(lc) = last_client {
            if lc != ev.client && slots[c].is_some() && slots[lc as usize].is_some() {
                stats.interleave = true;
            }
        }
        last_client = Some(ev.client);

        // ---- creation / destruction -------------------------------------------------
        if ev.op.is_create() || ev.op == Op::Drop {
            if let Some(h) = &slots[c] {
                let live = match h {
                    Handle::E(s) => s.sut.is_some(),
                    Handle::S(s) => s.sut.is_some(),
                };
                if live {
                    stats.drop_recreate += 1;
                }
            }
            slots[c] = None;
            let created: Result<Option<Handle>, String> = match &ev.op {
                Op::Drop => Ok(None),
                Op::NewIter => match m.new_iter {
                    None => Ok(None),
                    Some(f) => guarded_plain(|| {
                        stats.creates[0] += 1;
                        Some(Handle::E(Slot {
                            kind: Kind::Iter,
                            sut: Some(Dyn(f())),
                            model: Some(model_ord(m.disc.to_vec(), m.ord_reversed)),
                            base: 0,
                            total: n,
                            seen_none: false,
                            front: 0,
                            back: 0,
                            last_len: n,
                        }))
                    }),
                },
                Op::NewNames => match m.new_names {
                    None => Ok(None),
                    Some(f) => guarded_plain(|| {
                        stats.creates[2] += 1;
                        Some(Handle::S(Slot {
                            kind: Kind::Names,
                            sut: Some(Dyn(f())),
                            model: Some(model(m.names.to_vec())),
                            base: 0,
                            total: n,
                            seen_none: false,
                            front: 0,
                            back: 0,
                            last_len: n,
                        }))
                    }),
                },
                Op::NewRange(i, j) => match m.new_range {
                    None => Ok(None),
                    Some(f) => {
                        let (i, j) = ((*i).min(n - 1), (*j).min(n - 1));
                        let sub: Vec<i128> = if i <= j {
                            m.disc[i..=j].to_vec()
                        } else {
                            Vec::new()
                        };
                        let total = sub.len();
                        guarded_plain(|| {
                            stats.creates[1] += 1;
                            Some(Handle::E(Slot {
                                kind: Kind::Range,
                                sut: Some(Dyn(f(i, j))),
                                model: Some(model_ord(sub, m.ord_reversed)),
                                base: i,
                                total,
                                seen_none: false,
                            front: 0,
                            back: 0,
                                last_len: total,
                            }))
                        })
                    }
                },
                _ => unreachable!(),
            };
            match created {
                Ok(h) => {
                    if opts.want_transcript {
                        transcript.push((ev.client, op_s.clone(), "created".to_string()));
                    }
                    // the length reported right after creation is part of the observation
                    if let Some(h) = h {
                        let (sl, ml, kind) = match &h {
                            Handle::E(s) => (
                                guarded_plain(|| s.sut.as_ref().unwrap().len()),
                                s.model.as_ref().unwrap().len(),
                                s.kind,
                            ),
                            Handle::S(s) => (
                                guarded_plain(|| s.sut.as_ref().unwrap().len()),
                                s.model.as_ref().unwrap().len(),
                                s.kind,
                            ),
                        };
                        if let Some((raw, _)) = take_invalid() {
                            if opts.prop == Prop::C02 {
                                fail!(
                                    "invalid_enum",
                                    Some(kind),
                                    step,
                                    op_s,
                                    "a declared variant".to_string(),
                                    format!("bit pattern {}", raw)
                                );
                            }
                        }
                        if compare {
                            match sl {
                                Ok(l) if l == ml => {}
                                Ok(l) => fail!(
                                    "poststate",
                                    Some(kind),
                                    step,
                                    op_s,
                                    format!("len {}", ml),
                                    format!("len {}", l)
                                ),
                                Err(p) => fail!(
                                    "panic",
                                    Some(kind),
                                    step,
                                    op_s,
                                    format!("len {}", ml),
                                    format!("panic: {}", p)
                                ),
                            }
                        }
                        slots[c] = Some(h);
                    }
                }
                Err(p) => {
                    // C07: "... it is empty and never panics"; for iter()/names() creation is
                    // part of "observationally equal" (the model does not panic)
                    let kind = match &ev.op {
                        Op::NewIter => Kind::Iter,
                        Op::NewNames => Kind::Names,
                        _ => Kind::Range,
                    };
                    if opts.want_transcript {
                        transcript.push((ev.client, op_s.clone(), format!("panic: {}", p)));
                    }
                    let _ = take_invalid();
                    if compare {
                        fail!(
                            "create_panic",
                            Some(kind),
                            step,
                            op_s,
                            "an iterator".to_string(),
                            format!("panic: {}", p)
                        );
                    }
                }
            }
            continue;
        }

        // ---- stand-alone ops --------------------------------------------------------
        if let Op::Zip(k, mode) = &ev.op {
            if let (Some(fi), Some(fnm)) = (m.new_iter, m.new_names) {
                stats.zips += 1;
                let k = (*k).min(n + 1);
                let r = guarded_plain(|| {
                    let mut it = Dyn(fi());
                    let mut nm = Dyn(fnm());
                    let len0 = nm.len();
                    if it.size_hint().0 > (1 << 24) && nm.size_hint().0 > (1 << 24) {
                        panic!("refusing to collect: size_hint {:?}", it.size_hint());
                    }
                    if k > 0 {
                        it.nth(k - 1);
                        nm.nth(k - 1);
                    }
                    let v: Vec<(i128, &'static str)> = match mode {
                        0 => it.zip(nm).take(ITEM_LIMIT).collect(),
                        1 => it.rev().zip(nm.rev()).take(ITEM_LIMIT).collect(),
                        _ => it.zip(nm).rev().take(ITEM_LIMIT).collect(),
                    };
                    (len0, v)
                });
                let mut exp: Vec<(i128, &'static str)> = (k.min(n)..n)
                    .map(|i| (m.disc[i], m.names[i]))
                    .collect();
                if *mode != 0 {
                    exp.reverse();
                }
                let _ = take_invalid();
                match r {
                    Err(p) => fail!(
                        "panic",
                        Some(Kind::Names),
                        step,
                        op_s,
                        format!("{:?}", exp),
                        format!("panic: {}", p)
                    ),
                    Ok((len0, v)) => {
                        fnv(&mut stats.obs_digest, format!("{:?}", v).as_bytes());
                        if opts.want_transcript {
                            transcript.push((ev.client, op_s.clone(), trunc(&format!("{:?}", v))));
                        }
                        if len0 != n {
                            fail!(
                                "zip",
                                Some(Kind::Names),
                                step,
                                op_s,
                                format!("names().len() == {}", n),
                                format!("{}", len0)
                            );
                        }
                        let norm = |l: &[(i128, &'static str)]| -> Vec<(i128, &'static str)> {
                            l.iter().map(|(d, s)| (*d, s.strip_prefix("r#").unwrap_or(s))).collect()
                        };
                        if norm(&v) != norm(&exp) {
                            fail!(
                                "zip",
                                Some(Kind::Names),
                                step,
                                op_s,
                                format!("{:?}", exp),
                                format!("{:?}", v)
                            );
                        }
                        if let Some(as_str) = m.as_str {
                            for (d, s) in &v {
                                if let Ok(idx) = m.disc.binary_search(d) {
                                    match guarded_plain(|| as_str(idx)) {
                                        Ok(a) if a == *s => {}
                                        Ok(a) => fail!(
                                            "zip",
                                            Some(Kind::Names),
                                            step,
                                            op_s,
                                            format!("as_str({}) == {:?} (paired name)", d, s),
                                            format!("{:?}", a)
                                        ),
                                        Err(p) => fail!(
                                            "zip",
                                            Some(Kind::Names),
                                            step,
                                            op_s,
                                            format!("as_str({}) == {:?} (paired name)", d, s),
                                            format!("panic: {}", p)
                                        ),
                                    }
                                }
                            }
                        }
                    }
                }
            }
            continue;
        }
        if let Op::TryFrom(v) = &ev.op {
            for f in [m.try_from, m.try_from_trait].into_iter().flatten() {
                stats.probes += 1;
                if guarded_plain(|| f(0, *v)).is_err() {
                    stats.probe_panics += 1;
                }
            }
            if let Some((raw, _)) = take_invalid() {
                fail!(
                    "invalid_enum",
                    None,
                    step,
                    op_s,
                    "a declared variant or None".to_string(),
                    format!("bit pattern {}", raw)
                );
            }
            continue;
        }
        if let Op::FromStr(i, k) = &ev.op {
            let name = m.names[(*i).min(n - 1)];
            let arg: String = match k {
                0 => name.to_string(),
                1 => format!("{}x", name),
                2 => {
                    let mut cs: Vec<char> = name.chars().collect();
                    cs.pop();
                    cs.into_iter().collect()
                }
                _ => {
                    let mut cs: Vec<char> = name.chars().collect();
                    if let Some(c) = cs.first_mut() {
                        *c = if c.is_uppercase() {
                            c.to_lowercase().next().unwrap_or(*c)
                        } else {
                            c.to_uppercase().next().unwrap_or(*c)
                        };
                    }
                    cs.into_iter().collect()
                }
            };
            for f in [m.from_str, m.from_str_trait].into_iter().flatten() {
                stats.probes += 1;
                if guarded_plain(|| f(&arg)).is_err() {
                    stats.probe_panics += 1;
                }
            }
            if let Some(f) = m.as_str {
                stats.probes += 1;
                if guarded_plain(|| f((*i).min(n - 1))).is_err() {
                    stats.probe_panics += 1;
                }
            }
            if let Some((raw, _)) = take_invalid() {
                fail!(
                    "invalid_enum",
                    None,
                    step,
                    op_s,
                    "a declared variant or None".to_string(),
                    format!("bit pattern {}", raw)
                );
            }
            continue;
        }
        if let Op::Probe = &ev.op {
            let ds: Vec<i128> = recent[c].iter().rev().take(2).cloned().collect();
            let ns: Vec<&'static str> = recent_names[c].iter().rev().take(2).cloned().collect();
            let (p, pp) = probe(m, &ds, &ns);
            stats.probes += p;
            stats.probe_panics += pp;
            if let Some((raw, _)) = take_invalid() {
                fail!(
                    "invalid_enum",
                    None,
                    step,
                    op_s,
                    "a declared variant".to_string(),
                    format!("bit pattern {}", raw)
                );
            }
            continue;
        }

        // ---- ops on the client's handle ---------------------------------------------
        let Some(handle) = slots[c].as_mut() else {
            continue;
        };
        macro_rules! drive {
            ($slot:expr, $recent:expr) => {{
                let slot = $slot;
                if slot.sut.is_none() {
                    continue;
                }
                if ev.op.is_state_changing() {
                    stats.state_changing += 1;
                }
                stats.applied.push((slot.kind, step as u16));
                if slot.seen_none && !ev.op.is_consuming() {
                    stats.exhaust_poke += 1;
                }
                if ev.migrate {
                    stats.migrate += 1;
                }
                let len_before = slot.model.as_ref().map(|x| x.len()).unwrap_or(0);
                let (o_sut, oc_sut) = guarded(&mut slot.sut, &ev.op, ev.migrate);
                let invalid = take_invalid();
                fnv(&mut stats.obs_digest, o_sut.text.as_bytes());
                fnv(&mut stats.obs_digest, &[match &oc_sut {
                    Outcome::Ok => 0u8,
                    Outcome::CallbackPanic => 1,
                    Outcome::Panic(_) => 2,
                }]);
                let (o_mod, oc_mod) = guarded(&mut slot.model, &ev.op, false);
                if oc_mod == Outcome::CallbackPanic {
                    stats.callback_panic += 1;
                }
                if let Some(last) = o_sut.items.last() {
                    let _ = last;
                    $recent.extend(o_sut.items.iter().cloned());
                    if $recent.len() > 8 {
                        let cut = $recent.len() - 4;
                        $recent.drain(..cut);
                    }
                }
                if opts.want_transcript {
                    let suffix = match &oc_sut {
                        Outcome::Ok => String::new(),
                        Outcome::CallbackPanic => " !callback-panic".to_string(),
                        Outcome::Panic(p) => format!(" !panic: {}", p),
                    };
                    transcript.push((
                        ev.client,
                        format!("{}{}", op_s, if ev.migrate { "@" } else { "" }),
                        trunc(&format!("{}{}", o_sut.text, suffix)),
                    ));
                }
                if let Some((raw, _)) = invalid {
                    if opts.prop == Prop::C02 {
                        fail!(
                            "invalid_enum",
                            Some(slot.kind),
                            step,
                            op_s,
                            "a declared variant".to_string(),
                            format!("bit pattern {}", raw)
                        );
                    }
                }
                let same = o_sut.text == o_mod.text && oc_sut == oc_mod;
                if !same {
                    if compare {
                        let class = if matches!(oc_sut, Outcome::Panic(_)) {
                            "panic"
                        } else {
                            "mismatch"
                        };
                        let render = |t: &str, oc: &Outcome| match oc {
                            Outcome::Ok => t.to_string(),
                            Outcome::CallbackPanic => format!("{} !callback-panic", t),
                            Outcome::Panic(p) => format!("{} !panic: {}", t, p),
                        };
                        fail!(
                            class,
                            Some(slot.kind),
                            step,
                            op_s,
                            render(&o_mod.text, &oc_mod),
                            render(&o_sut.text, &oc_sut)
                        );
                    } else {
                        stats.diverged_unreported += 1;
                        slot.sut = None;
                        slot.model = None;
                        continue;
                    }
                }
                if matches!(oc_sut, Outcome::Panic(_)) {
                    // both sides panicked outside a callback: nothing more to learn here
                    slot.sut = None;
                    slot.model = None;
                    continue;
                }
                // early exit of a consumer
                match &ev.op {
                    Op::TryFold(k) | Op::TryRfold(k) | Op::Find(k) | Op::Rfind(k)
                    | Op::Position(k) | Op::Rposition(k) | Op::All(k) | Op::Any(k) => {
                        if *k >= 1 && *k < len_before {
                            stats.early_exit += 1;
                        }
                    }
                    Op::TakeCollect(k) | Op::RevTakeCollect(k) => {
                        if *k < len_before {
                            stats.early_exit += 1;
                        }
                    }
                    _ => {}
                }
                if ev.op.is_consuming() {
                    stats.consumed_whole += 1;
                }
                // post-state: the reported lengths agree, never increase, and None is forever
                if let (Some(s), Some(mo)) = (slot.sut.as_ref(), slot.model.as_ref()) {
                    let ml = mo.len();
                    let mh = mo.size_hint();
                    match guarded_plain(|| (s.len(), s.size_hint())) {
                        Ok((sl, sh)) => {
                            if compare && (sl != ml || sh != mh) {
                                fail!(
                                    "poststate",
                                    Some(slot.kind),
                                    step,
                                    op_s,
                                    format!("len {} size_hint {:?}", ml, mh),
                                    format!("len {} size_hint {:?}", sl, sh)
                                );
                            }
                            if compare && sl > slot.last_len {
                                fail!(
                                    "len_increase",
                                    Some(slot.kind),
                                    step,
                                    op_s,
                                    format!("len <= {}", slot.last_len),
                                    format!("len {}", sl)
                                );
                            }
                            slot.last_len = sl;
                        }
                        Err(p) => {
                            if compare {
                                fail!(
                                    "panic",
                                    Some(slot.kind),
                                    step,
                                    op_s,
                                    format!("len {}", ml),
                                    format!("panic in len/size_hint: {}", p)
                                );
                            }
                        }
                    }
                    if ml == 0 {
                        slot.seen_none = slot.seen_none
                            || matches!(
                                ev.op,
                                Op::Next | Op::NextBack | Op::Nth(_) | Op::NthBack(_)
                            ) && o_mod.text == "None";
                    }
                    // window measure (model side): how much has been taken from either end
                    if ml > 0 && ml < slot.total {
                        stats.visited_partial = true;
                    }
                    let consumed = len_before - ml;
                    if consumed > 0 {
                        if from_back(&ev.op) {
                            slot.back += consumed;
                        } else {
                            slot.front += consumed;
                        }
                        stats.windows.push((
                            (slot.base + slot.front) as u32,
                            (slot.base + slot.total - slot.back) as u32,
                        ));
                    }
                }
            }};
        }
        match handle {
            Handle::E(slot) => drive!(slot, recent[c]),
            Handle::S(slot) => drive!(slot, recent_names[c]),
        }
    }
    RunResult {
        violation: None,
        stats,
        transcript,
    }
}

fn fnv(h: &mut u64, bytes: &[u8]) {
    if *h == 0 {
        *h = 0xcbf2_9ce4_8422_2325;
    }
    for b in bytes {
        *h ^= *b as u64;
        *h = h.wrapping_mul(0x100_0000_01b3);
    }
}

/// does this (non-consuming) op take its items from the back?
fn from_back(op: &Op) -> bool {
    matches!(
        op,
        Op::NextBack | Op::NthBack(_) | Op::RevTakeCollect(_) | Op::TryRfold(_) | Op::Rfind(_)
            | Op::Rposition(_)
    )
}

/// The sampled, argument-shaped slice of C02: pure functions called on values that flowed
/// through the history. Only the validity observers look at the results.
pub fn probe(m: &'static Module, ds: &[i128], names: &[&'static str]) -> (u64, u64) {
    let mut count = 0u64;
    let mut panics = 0u64;
    macro_rules! p {
        ($e:expr) => {{
            count += 1;
            if guarded_plain(|| $e).is_err() {
                panics += 1;
            }
        }};
    }
    let mut idxs = Vec::new();
    for d in ds {
        if let Ok(i) = m.disc.binary_search(d) {
            idxs.push(i);
        }
        for f in [m.try_from, m.try_from_trait].into_iter().flatten() {
            p!(f(0, *d));
            p!(f(0, d.wrapping_add(1)));
            p!(f(0, d.wrapping_sub(1)));
            // congruent to a declared discriminant modulo a narrower width (a bound check done
            // after a narrowing cast would let these through)
            for sh in [8u32, 16, 32, 64] {
                p!(f(0, d.wrapping_add(1i128 << sh)));
                p!(f(0, d.wrapping_sub(1i128 << sh)));
            }
            p!(f(1, 0));
            p!(f(2, 0));
        }
    }
    for &i in &idxs {
        if let Some(f) = m.next {
            p!(f(i));
        }
        if let Some(f) = m.next_back {
            p!(f(i));
        }
        if let Some(f) = m.as_str {
            p!(f(i));
        }
        let nm = m.names[i];
        for f in [m.from_str, m.from_str_trait].into_iter().flatten() {
            p!(f(nm));
            let mut mutated = nm.to_string();
            mutated.push('x');
            p!(f(&mutated));
            if !nm.is_empty() {
                let mut cs: Vec<char> = nm.chars().collect();
                cs.pop();
                let s: String = cs.into_iter().collect();
                p!(f(&s));
            }
        }
    }
    for nm in names {
        for f in [m.from_str, m.from_str_trait].into_iter().flatten() {
            p!(f(nm));
        }
    }
    if let (Some(f), true) = (m.new_range, idxs.len() >= 2) {
        let (a, b) = (idxs[0], idxs[1]);
        p!({
            let mut it = Dyn(f(a, b));
            let x = it.next();
            let y = it.next_back();
            (x, y, it.len())
        });
        p!({
            let mut it = Dyn(f(b, a));
            let x = it.next();
            let y = it.next_back();
            (x, y, it.len())
        });
    }
    if let Some(f) = m.min {
        p!(f());
    }
    if let Some(f) = m.max {
        p!(f());
    }
    (count, panics)
}
