//! The object-safe face of "a double-ended, exact-size, fused iterator": exactly the
//! methods the derive implements or inherits. Generated structs and the reference model
//! (`std::vec::IntoIter`) both sit behind it, and one non-generic wrapper (`Dyn<T>`)
//! implements the four `core::iter` traits by forwarding 1:1, so that `core`'s adaptors
//! (`rev`, `skip`, `step_by`, `enumerate().rev()`, `zip`, ...) run identical code on both
//! sides and the only difference between them is the struct under test.

use std::fmt::Debug;
use std::iter::FusedIterator;

pub trait Item: Clone + Ord + Debug + Send + 'static {
    fn render(&self) -> String;
    /// a deliberately non-monotone key, for the `*_by_key` family
    fn key(&self) -> i64;
}
impl Item for i128 {
    fn render(&self) -> String {
        self.to_string()
    }
    fn key(&self) -> i64 {
        self.rem_euclid(7) as i64
    }
}
impl Item for &'static str {
    /// A raw identifier `r#type` IS the identifier `type`; whether its name is spelled with or
    /// without the `r#` is not something C08 fixes, so observations of names are compared modulo one
    /// leading `r#`. (The zip invariant still demands that names() and as_str agree exactly.)
    fn render(&self) -> String {
        format!("{:?}", self.strip_prefix("r#").unwrap_or(self))
    }
    fn key(&self) -> i64 {
        (self.len() % 5) as i64
    }
}

use std::cmp::Ordering;

/// Every stable method of `Iterator`, `DoubleEndedIterator` and `ExactSizeIterator` that an
/// implementation can override with an effect of its own and that can be expressed without
/// generics. (Not expressible / not forwarded: `try_fold`/`try_rfold` cannot be overridden on
/// stable; adaptor constructors return std types; `collect`, `partition`, `unzip`, `find_map`,
/// `sum`, `product` and the comparison family are generic over another type.)
pub trait DynIter<T: Item> {
    fn next(&mut self) -> Option<T>;
    fn size_hint(&self) -> (usize, Option<usize>);
    fn nth(&mut self, n: usize) -> Option<T>;
    fn fold(self: Box<Self>, init: u64, f: &mut dyn FnMut(u64, T) -> u64) -> u64;
    fn last(self: Box<Self>) -> Option<T>;
    fn next_back(&mut self) -> Option<T>;
    fn nth_back(&mut self, n: usize) -> Option<T>;
    fn rfold(self: Box<Self>, init: u64, f: &mut dyn FnMut(u64, T) -> u64) -> u64;
    fn len(&self) -> usize;
    fn count(self: Box<Self>) -> usize;
    fn for_each(self: Box<Self>, f: &mut dyn FnMut(T));
    fn reduce(self: Box<Self>, f: &mut dyn FnMut(T, T) -> T) -> Option<T>;
    fn all(&mut self, f: &mut dyn FnMut(T) -> bool) -> bool;
    fn any(&mut self, f: &mut dyn FnMut(T) -> bool) -> bool;
    fn find(&mut self, f: &mut dyn FnMut(&T) -> bool) -> Option<T>;
    fn rfind(&mut self, f: &mut dyn FnMut(&T) -> bool) -> Option<T>;
    fn position(&mut self, f: &mut dyn FnMut(T) -> bool) -> Option<usize>;
    fn rposition(&mut self, f: &mut dyn FnMut(T) -> bool) -> Option<usize>;
    fn max(self: Box<Self>) -> Option<T>;
    fn min(self: Box<Self>) -> Option<T>;
    fn max_by(self: Box<Self>, f: &mut dyn FnMut(&T, &T) -> Ordering) -> Option<T>;
    fn min_by(self: Box<Self>, f: &mut dyn FnMut(&T, &T) -> Ordering) -> Option<T>;
    fn max_by_key(self: Box<Self>, f: &mut dyn FnMut(&T) -> i64) -> Option<T>;
    fn min_by_key(self: Box<Self>, f: &mut dyn FnMut(&T) -> i64) -> Option<T>;
    fn is_sorted(self: Box<Self>) -> bool;
}

pub type BoxIter<T> = Box<dyn DynIter<T> + Send>;

/// Implements `DynIter<$t>` for a new tuple struct `$w($inner)` by forwarding every
/// method to the method of the same name of `$inner`, mapping items through `$conv`.
#[macro_export]
macro_rules! impl_dyn {
    ($w:ident, $inner:ty, $t:ty, $conv:expr, $unconv:expr) => {
        pub struct $w(pub $inner);
        impl $crate::dynit::DynIter<$t> for $w {
            fn next(&mut self) -> Option<$t> {
                ::core::iter::Iterator::next(&mut self.0).map($conv)
            }
            fn size_hint(&self) -> (usize, Option<usize>) {
                ::core::iter::Iterator::size_hint(&self.0)
            }
            fn nth(&mut self, n: usize) -> Option<$t> {
                ::core::iter::Iterator::nth(&mut self.0, n).map($conv)
            }
            fn fold(self: Box<Self>, init: u64, f: &mut dyn FnMut(u64, $t) -> u64) -> u64 {
                ::core::iter::Iterator::fold(self.0, init, |a, x| f(a, ($conv)(x)))
            }
            fn last(self: Box<Self>) -> Option<$t> {
                ::core::iter::Iterator::last(self.0).map($conv)
            }
            fn next_back(&mut self) -> Option<$t> {
                ::core::iter::DoubleEndedIterator::next_back(&mut self.0).map($conv)
            }
            fn nth_back(&mut self, n: usize) -> Option<$t> {
                ::core::iter::DoubleEndedIterator::nth_back(&mut self.0, n).map($conv)
            }
            fn rfold(self: Box<Self>, init: u64, f: &mut dyn FnMut(u64, $t) -> u64) -> u64 {
                ::core::iter::DoubleEndedIterator::rfold(self.0, init, |a, x| f(a, ($conv)(x)))
            }
            fn len(&self) -> usize {
                ::core::iter::ExactSizeIterator::len(&self.0)
            }
            fn count(self: Box<Self>) -> usize {
                ::core::iter::Iterator::count(self.0)
            }
            fn for_each(self: Box<Self>, f: &mut dyn FnMut($t)) {
                ::core::iter::Iterator::for_each(self.0, |x| f(($conv)(x)))
            }
            fn reduce(self: Box<Self>, f: &mut dyn FnMut($t, $t) -> $t) -> Option<$t> {
                ::core::iter::Iterator::reduce(self.0, |a, b| ($unconv)(f(($conv)(a), ($conv)(b)))).map($conv)
            }
            fn all(&mut self, f: &mut dyn FnMut($t) -> bool) -> bool {
                ::core::iter::Iterator::all(&mut self.0, |x| f(($conv)(x)))
            }
            fn any(&mut self, f: &mut dyn FnMut($t) -> bool) -> bool {
                ::core::iter::Iterator::any(&mut self.0, |x| f(($conv)(x)))
            }
            fn find(&mut self, f: &mut dyn FnMut(&$t) -> bool) -> Option<$t> {
                ::core::iter::Iterator::find(&mut self.0, |x| f(&($conv)(*x))).map($conv)
            }
            fn rfind(&mut self, f: &mut dyn FnMut(&$t) -> bool) -> Option<$t> {
                ::core::iter::DoubleEndedIterator::rfind(&mut self.0, |x| f(&($conv)(*x))).map($conv)
            }
            fn position(&mut self, f: &mut dyn FnMut($t) -> bool) -> Option<usize> {
                ::core::iter::Iterator::position(&mut self.0, |x| f(($conv)(x)))
            }
            fn rposition(&mut self, f: &mut dyn FnMut($t) -> bool) -> Option<usize> {
                ::core::iter::Iterator::rposition(&mut self.0, |x| f(($conv)(x)))
            }
            fn max(self: Box<Self>) -> Option<$t> {
                ::core::iter::Iterator::max(self.0).map($conv)
            }
            fn min(self: Box<Self>) -> Option<$t> {
                ::core::iter::Iterator::min(self.0).map($conv)
            }
            fn max_by(
                self: Box<Self>,
                f: &mut dyn FnMut(&$t, &$t) -> ::core::cmp::Ordering,
            ) -> Option<$t> {
                ::core::iter::Iterator::max_by(self.0, |a, b| f(&($conv)(*a), &($conv)(*b))).map($conv)
            }
            fn min_by(
                self: Box<Self>,
                f: &mut dyn FnMut(&$t, &$t) -> ::core::cmp::Ordering,
            ) -> Option<$t> {
                ::core::iter::Iterator::min_by(self.0, |a, b| f(&($conv)(*a), &($conv)(*b))).map($conv)
            }
            fn max_by_key(self: Box<Self>, f: &mut dyn FnMut(&$t) -> i64) -> Option<$t> {
                ::core::iter::Iterator::max_by_key(self.0, |a| f(&($conv)(*a))).map($conv)
            }
            fn min_by_key(self: Box<Self>, f: &mut dyn FnMut(&$t) -> i64) -> Option<$t> {
                ::core::iter::Iterator::min_by_key(self.0, |a| f(&($conv)(*a))).map($conv)
            }
            fn is_sorted(self: Box<Self>) -> bool {
                ::core::iter::Iterator::is_sorted(self.0)
            }
        }
    };
}

/// The reference model: `std::vec::IntoIter` over the ground-truth list. `.1` says that the item
/// type of the struct under test orders its values in reverse (see `Module::ord_reversed`): the three
/// methods that use the item's own `Ord` (`max`, `min`, `is_sorted`) then answer for that order.
pub struct ModelIter<T>(pub std::vec::IntoIter<T>, pub bool);

impl<T: Item> DynIter<T> for ModelIter<T> {
    fn next(&mut self) -> Option<T> {
        self.0.next()
    }
    fn size_hint(&self) -> (usize, Option<usize>) {
        self.0.size_hint()
    }
    fn nth(&mut self, n: usize) -> Option<T> {
        self.0.nth(n)
    }
    fn fold(self: Box<Self>, init: u64, f: &mut dyn FnMut(u64, T) -> u64) -> u64 {
        self.0.fold(init, |a, x| f(a, x))
    }
    fn last(self: Box<Self>) -> Option<T> {
        self.0.last()
    }
    fn next_back(&mut self) -> Option<T> {
        self.0.next_back()
    }
    fn nth_back(&mut self, n: usize) -> Option<T> {
        self.0.nth_back(n)
    }
    fn rfold(self: Box<Self>, init: u64, f: &mut dyn FnMut(u64, T) -> u64) -> u64 {
        self.0.rfold(init, |a, x| f(a, x))
    }
    fn len(&self) -> usize {
        self.0.len()
    }
    fn count(self: Box<Self>) -> usize {
        self.0.count()
    }
    fn for_each(self: Box<Self>, f: &mut dyn FnMut(T)) {
        self.0.for_each(|x| f(x))
    }
    fn reduce(self: Box<Self>, f: &mut dyn FnMut(T, T) -> T) -> Option<T> {
        self.0.reduce(|a, b| f(a, b))
    }
    fn all(&mut self, f: &mut dyn FnMut(T) -> bool) -> bool {
        self.0.all(|x| f(x))
    }
    fn any(&mut self, f: &mut dyn FnMut(T) -> bool) -> bool {
        self.0.any(|x| f(x))
    }
    fn find(&mut self, f: &mut dyn FnMut(&T) -> bool) -> Option<T> {
        self.0.find(|x| f(x))
    }
    fn rfind(&mut self, f: &mut dyn FnMut(&T) -> bool) -> Option<T> {
        self.0.rfind(|x| f(x))
    }
    fn position(&mut self, f: &mut dyn FnMut(T) -> bool) -> Option<usize> {
        self.0.position(|x| f(x))
    }
    fn rposition(&mut self, f: &mut dyn FnMut(T) -> bool) -> Option<usize> {
        self.0.rposition(|x| f(x))
    }
    fn max(self: Box<Self>) -> Option<T> {
        if self.1 {
            self.0.max_by(|a, b| b.cmp(a))
        } else {
            self.0.max()
        }
    }
    fn min(self: Box<Self>) -> Option<T> {
        if self.1 {
            self.0.min_by(|a, b| b.cmp(a))
        } else {
            self.0.min()
        }
    }
    fn max_by(self: Box<Self>, f: &mut dyn FnMut(&T, &T) -> Ordering) -> Option<T> {
        self.0.max_by(|a, b| f(a, b))
    }
    fn min_by(self: Box<Self>, f: &mut dyn FnMut(&T, &T) -> Ordering) -> Option<T> {
        self.0.min_by(|a, b| f(a, b))
    }
    fn max_by_key(self: Box<Self>, f: &mut dyn FnMut(&T) -> i64) -> Option<T> {
        self.0.max_by_key(|a| f(a))
    }
    fn min_by_key(self: Box<Self>, f: &mut dyn FnMut(&T) -> i64) -> Option<T> {
        self.0.min_by_key(|a| f(a))
    }
    fn is_sorted(self: Box<Self>) -> bool {
        if self.1 {
            self.0.is_sorted_by(|a, b| b <= a)
        } else {
            self.0.is_sorted()
        }
    }
}

pub fn model<T: Item>(items: Vec<T>) -> Dyn<T> {
    Dyn(Box::new(ModelIter(items.into_iter(), false)))
}

pub fn model_ord<T: Item>(items: Vec<T>, reversed: bool) -> Dyn<T> {
    Dyn(Box::new(ModelIter(items.into_iter(), reversed)))
}

/// The one non-generic wrapper; see module doc.
pub struct Dyn<T>(pub BoxIter<T>);

impl<T: Item> Iterator for Dyn<T> {
    type Item = T;
    #[inline]
    fn next(&mut self) -> Option<T> {
        self.0.next()
    }
    #[inline]
    fn size_hint(&self) -> (usize, Option<usize>) {
        self.0.size_hint()
    }
    #[inline]
    fn nth(&mut self, n: usize) -> Option<T> {
        self.0.nth(n)
    }
    fn fold<B, F>(self, init: B, mut f: F) -> B
    where
        F: FnMut(B, T) -> B,
    {
        let mut acc = Some(init);
        self.0.fold(0, &mut |a, x| {
            acc = Some(f(acc.take().unwrap(), x));
            a.wrapping_add(1)
        });
        acc.unwrap()
    }
    #[inline]
    fn last(self) -> Option<T> {
        self.0.last()
    }
    #[inline]
    fn count(self) -> usize {
        self.0.count()
    }
    fn for_each<F: FnMut(T)>(self, mut f: F) {
        self.0.for_each(&mut f)
    }
    fn reduce<F: FnMut(T, T) -> T>(self, mut f: F) -> Option<T> {
        self.0.reduce(&mut f)
    }
    fn all<F: FnMut(T) -> bool>(&mut self, mut f: F) -> bool {
        self.0.all(&mut f)
    }
    fn any<F: FnMut(T) -> bool>(&mut self, mut f: F) -> bool {
        self.0.any(&mut f)
    }
    fn find<P: FnMut(&T) -> bool>(&mut self, mut p: P) -> Option<T> {
        self.0.find(&mut p)
    }
    fn position<P: FnMut(T) -> bool>(&mut self, mut p: P) -> Option<usize> {
        self.0.position(&mut p)
    }
    // (`rposition` is not overridden here: its `Self: ExactSizeIterator + DoubleEndedIterator` bound
    // defeats normalisation of `Self::Item`; operations call `DynIter::rposition` directly instead)
    fn max(self) -> Option<T> {
        self.0.max()
    }
    fn min(self) -> Option<T> {
        self.0.min()
    }
    fn max_by<F: FnMut(&T, &T) -> Ordering>(self, mut f: F) -> Option<T> {
        self.0.max_by(&mut f)
    }
    fn min_by<F: FnMut(&T, &T) -> Ordering>(self, mut f: F) -> Option<T> {
        self.0.min_by(&mut f)
    }
    fn is_sorted(self) -> bool {
        self.0.is_sorted()
    }
}

impl<T: Item> DoubleEndedIterator for Dyn<T> {
    #[inline]
    fn next_back(&mut self) -> Option<T> {
        self.0.next_back()
    }
    #[inline]
    fn nth_back(&mut self, n: usize) -> Option<T> {
        self.0.nth_back(n)
    }
    fn rfold<B, F>(self, init: B, mut f: F) -> B
    where
        F: FnMut(B, T) -> B,
    {
        let mut acc = Some(init);
        self.0.rfold(0, &mut |a, x| {
            acc = Some(f(acc.take().unwrap(), x));
            a.wrapping_add(1)
        });
        acc.unwrap()
    }
    fn rfind<P: FnMut(&T) -> bool>(&mut self, mut p: P) -> Option<T> {
        self.0.rfind(&mut p)
    }
}

impl<T: Item> ExactSizeIterator for Dyn<T> {
    #[inline]
    fn len(&self) -> usize {
        self.0.len()
    }
}

impl<T: Item> FusedIterator for Dyn<T> {}
