//! The object-safe face of "a double-ended, exact-size, fused iterator": exactly the
//! methods the derive implements or inherits. Generated structs and the reference model
//! (`std::vec::IntoIter`) both sit behind it, and one non-generic wrapper (`Dyn<T>`)
//! implements the four `core::iter` traits by forwarding 1:1, so that `core`'s adaptors
//! (`rev`, `skip`, `step_by`, `enumerate().rev()`, `zip`, ...) run identical code on both
//! sides and the only difference between them is the struct under test.

use std::fmt::Debug;
use std::iter::FusedIterator;

pub trait Item: Clone + PartialEq + Debug + Send + 'static {
    fn render(&self) -> String;
}
impl Item for i128 {
    fn render(&self) -> String {
        self.to_string()
    }
}
impl Item for &'static str {
    fn render(&self) -> String {
        format!("{:?}", self)
    }
}

pub trait DynIter<T> {
    fn next(&mut self) -> Option<T>;
    fn size_hint(&self) -> (usize, Option<usize>);
    fn nth(&mut self, n: usize) -> Option<T>;
    fn fold(self: Box<Self>, init: u64, f: &mut dyn FnMut(u64, T) -> u64) -> u64;
    fn last(self: Box<Self>) -> Option<T>;
    fn next_back(&mut self) -> Option<T>;
    fn nth_back(&mut self, n: usize) -> Option<T>;
    fn rfold(self: Box<Self>, init: u64, f: &mut dyn FnMut(u64, T) -> u64) -> u64;
    fn len(&self) -> usize;
}

pub type BoxIter<T> = Box<dyn DynIter<T> + Send>;

/// Implements `DynIter<$t>` for a new tuple struct `$w($inner)` by forwarding every
/// method to the method of the same name of `$inner`, mapping items through `$conv`.
#[macro_export]
macro_rules! impl_dyn {
    ($w:ident, $inner:ty, $t:ty, $conv:expr) => {
        pub struct $w(pub $inner);
        impl $crate::dynit::DynIter<$t> for $w {
            fn next(&mut self) -> Option<$t> {
                ::core::iter::Iterator::next(&mut self.0).map($conv)
            }
            fn size_hint(&self) -> (usize, Option<usize>) {
                ::core::iter::Iterator::size_hint(&self.0)
            }
            fn nth(&mut self, n: usize) -> Option<$t> {
                ::core::iter::Iterator::nth(&mut self.0, n).map($conv)
            }
            fn fold(self: Box<Self>, init: u64, f: &mut dyn FnMut(u64, $t) -> u64) -> u64 {
                ::core::iter::Iterator::fold(self.0, init, |a, x| f(a, ($conv)(x)))
            }
            fn last(self: Box<Self>) -> Option<$t> {
                ::core::iter::Iterator::last(self.0).map($conv)
            }
            fn next_back(&mut self) -> Option<$t> {
                ::core::iter::DoubleEndedIterator::next_back(&mut self.0).map($conv)
            }
            fn nth_back(&mut self, n: usize) -> Option<$t> {
                ::core::iter::DoubleEndedIterator::nth_back(&mut self.0, n).map($conv)
            }
            fn rfold(self: Box<Self>, init: u64, f: &mut dyn FnMut(u64, $t) -> u64) -> u64 {
                ::core::iter::DoubleEndedIterator::rfold(self.0, init, |a, x| f(a, ($conv)(x)))
            }
            fn len(&self) -> usize {
                ::core::iter::ExactSizeIterator::len(&self.0)
            }
        }
    };
}

/// The reference model: `std::vec::IntoIter` over the ground-truth list.
pub struct ModelIter<T>(pub std::vec::IntoIter<T>);

impl<T: Item> DynIter<T> for ModelIter<T> {
    fn next(&mut self) -> Option<T> {
        self.0.next()
    }
    fn size_hint(&self) -> (usize, Option<usize>) {
        self.0.size_hint()
    }
    fn nth(&mut self, n: usize) -> Option<T> {
        self.0.nth(n)
    }
    fn fold(self: Box<Self>, init: u64, f: &mut dyn FnMut(u64, T) -> u64) -> u64 {
        self.0.fold(init, |a, x| f(a, x))
    }
    fn last(self: Box<Self>) -> Option<T> {
        self.0.last()
    }
    fn next_back(&mut self) -> Option<T> {
        self.0.next_back()
    }
    fn nth_back(&mut self, n: usize) -> Option<T> {
        self.0.nth_back(n)
    }
    fn rfold(self: Box<Self>, init: u64, f: &mut dyn FnMut(u64, T) -> u64) -> u64 {
        self.0.rfold(init, |a, x| f(a, x))
    }
    fn len(&self) -> usize {
        self.0.len()
    }
}

pub fn model<T: Item>(items: Vec<T>) -> Dyn<T> {
    Dyn(Box::new(ModelIter(items.into_iter())))
}

/// The one non-generic wrapper; see module doc.
pub struct Dyn<T>(pub BoxIter<T>);

impl<T> Iterator for Dyn<T> {
    type Item = T;
    #[inline]
    fn next(&mut self) -> Option<T> {
        self.0.next()
    }
    #[inline]
    fn size_hint(&self) -> (usize, Option<usize>) {
        self.0.size_hint()
    }
    #[inline]
    fn nth(&mut self, n: usize) -> Option<T> {
        self.0.nth(n)
    }
    fn fold<B, F>(self, init: B, mut f: F) -> B
    where
        F: FnMut(B, T) -> B,
    {
        let mut acc = Some(init);
        self.0.fold(0, &mut |a, x| {
            acc = Some(f(acc.take().unwrap(), x));
            a.wrapping_add(1)
        });
        acc.unwrap()
    }
    #[inline]
    fn last(self) -> Option<T> {
        self.0.last()
    }
}

impl<T> DoubleEndedIterator for Dyn<T> {
    #[inline]
    fn next_back(&mut self) -> Option<T> {
        self.0.next_back()
    }
    #[inline]
    fn nth_back(&mut self, n: usize) -> Option<T> {
        self.0.nth_back(n)
    }
    fn rfold<B, F>(self, init: B, mut f: F) -> B
    where
        F: FnMut(B, T) -> B,
    {
        let mut acc = Some(init);
        self.0.rfold(0, &mut |a, x| {
            acc = Some(f(acc.take().unwrap(), x));
            a.wrapping_add(1)
        });
        acc.unwrap()
    }
}

impl<T> ExactSizeIterator for Dyn<T> {
    #[inline]
    fn len(&self) -> usize {
        self.0.len()
    }
}

impl<T> FusedIterator for Dyn<T> {}
