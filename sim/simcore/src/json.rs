//! Tiny JSON writer (no dependencies).

#[derive(Clone, Debug)]
pub enum J {
    Null,
    Bool(bool),
    Int(i128),
    Num(f64),
    Str(String),
    Arr(Vec<J>),
    Obj(Vec<(String, J)>),
}

impl J {
    pub fn s(x: impl Into<String>) -> J {
        J::Str(x.into())
    }
    pub fn obj(v: Vec<(&str, J)>) -> J {
        J::Obj(v.into_iter().map(|(k, v)| (k.to_string(), v)).collect())
    }
    pub fn write(&self, out: &mut String) {
        match self {
            J::Null => out.push_str("null"),
            J::Bool(b) => out.push_str(if *b { "true" } else { "false" }),
            J::Int(i) => out.push_str(&i.to_string()),
            J::Num(f) => {
                if f.is_finite() {
                    out.push_str(&format!("{}", f))
                } else {
                    out.push_str("null")
                }
            }
            J::Str(s) => {
                out.push('"');
                for c in s.chars() {
                    match c {
                        '"' => out.push_str("\\\""),
                        '\\' => out.push_str("\\\\"),
                        '\n' => out.push_str("\\n"),
                        '\r' => out.push_str("\\r"),
                        '\t' => out.push_str("\\t"),
                        c if (c as u32) < 0x20 => out.push_str(&format!("\\u{:04x}", c as u32)),
                        c => out.push(c),
                    }
                }
                out.push('"');
            }
            J::Arr(v) => {
                out.push('[');
                for (i, x) in v.iter().enumerate() {
                    if i > 0 {
                        out.push(',');
                    }
                    x.write(out);
                }
                out.push(']');
            }
            J::Obj(v) => {
                out.push('{');
                for (i, (k, x)) in v.iter().enumerate() {
                    if i > 0 {
                        out.push(',');
                    }
                    J::Str(k.clone()).write(out);
                    out.push(':');
                    x.write(out);
                }
                out.push('}');
            }
        }
    }
    pub fn render(&self) -> String {
        let mut s = String::new();
        self.write(&mut s);
        s
    }
}
