//! Minimisation of a failing history: delta debugging on the event list, then dropping
//! whole clients and fault flags, then argument shrinking — always keeping the same
//! violation class (same observer, same handle kind).

use crate::exec::{ExecOpts, Violation};
use crate::module::Module;
use crate::ops::{Event, Kind};

pub fn shrink(
    m: &'static Module,
    history: &[Event],
    opts: &ExecOpts,
    first: &Violation,
) -> (Vec<Event>, Violation, u32) {
    let sig: (String, Option<Kind>) = first.signature();
    let mut attempts = 0u32;
    let mut best: Vec<Event> = history[..=first.step.min(history.len() - 1)].to_vec();
    #[allow(unused_assignments)]
    let mut best_v = first.clone();
    let o = ExecOpts {
        prop: opts.prop,
        want_transcript: false,
    };
    let try_h = |h: &[Event], attempts: &mut u32| -> Option<Violation> {
        if h.is_empty() {
            return None;
        }
        *attempts += 1;
        // every candidate on a fresh thread: what survives must fail from pristine thread-local
        // state, as it will when the replay file is executed by a new process
        crate::driver::hermetic(m, h, &o)
            .violation
            .filter(|v| v.signature() == sig)
    };
    // the truncated history must still fail (it does: runs are deterministic)
    if let Some(v) = try_h(&best, &mut attempts) {
        best_v = v;
    } else {
        return (history.to_vec(), first.clone(), attempts);
    }

    // 1. ddmin
    let mut chunk = (best.len() / 2).max(1);
    loop {
        let mut i = 0;
        let mut progressed = false;
        while i < best.len() && best.len() > 1 {
            let end = (i + chunk).min(best.len());
            let mut cand = Vec::with_capacity(best.len());
            cand.extend_from_slice(&best[..i]);
            cand.extend_from_slice(&best[end..]);
            if let Some(v) = try_h(&cand, &mut attempts) {
                best = cand;
                best_v = v;
                progressed = true;
            } else {
                i = end;
            }
        }
        if attempts > 4000 || best.len() <= 1 || (chunk == 1 && !progressed) {
            break;
        }
        if !progressed {
            chunk = (chunk / 2).max(1);
        }
        chunk = chunk.min(best.len()).max(1);
    }

    // 2. whole clients
    let mut clients: Vec<u8> = best.iter().map(|e| e.client).collect();
    clients.sort();
    clients.dedup();
    if clients.len() > 1 {
        for c in clients {
            let cand: Vec<Event> = best.iter().filter(|e| e.client != c).cloned().collect();
            if let Some(v) = try_h(&cand, &mut attempts) {
                best = cand;
                best_v = v;
            }
        }
    }
    // 3. fault flags
    if best.iter().any(|e| e.migrate) {
        let cand: Vec<Event> = best
            .iter()
            .map(|e| Event {
                migrate: false,
                ..e.clone()
            })
            .collect();
        if let Some(v) = try_h(&cand, &mut attempts) {
            best = cand;
            best_v = v;
        }
    }
    // 4. arguments
    let mut changed = true;
    let mut rounds = 0;
    while changed && rounds < 6 && attempts < 8000 {
        changed = false;
        rounds += 1;
        for idx in 0..best.len() {
            let args = best[idx].op.args();
            for ai in 0..args.len() {
                let cur = best[idx].op.args();
                let a = cur[ai];
                let mut cands = vec![0usize, 1, 2, a / 2, a.saturating_sub(1)];
                cands.sort();
                cands.dedup();
                for cv in cands {
                    if cv >= a {
                        continue;
                    }
                    let mut na = cur.clone();
                    na[ai] = cv;
                    let mut cand = best.clone();
                    cand[idx].op = best[idx].op.with_args(&na);
                    if cand[idx].op == best[idx].op {
                        continue;
                    }
                    if let Some(v) = try_h(&cand, &mut attempts) {
                        best = cand;
                        best_v = v;
                        changed = true;
                        break;
                    }
                }
            }
        }
    }
    // 5. renumber clients
    let mut ids: Vec<u8> = best.iter().map(|e| e.client).collect();
    ids.sort();
    ids.dedup();
    let cand: Vec<Event> = best
        .iter()
        .map(|e| Event {
            client: ids.iter().position(|x| *x == e.client).unwrap() as u8,
            ..e.clone()
        })
        .collect();
    if let Some(v) = try_h(&cand, &mut attempts) {
        best = cand;
        best_v = v;
    }
    (best, best_v, attempts)
}
