//! One integer decides everything: SplitMix64 seeding of xoshiro256**.
//! Hand-written so that the stream can never change under us.

#[inline]
pub fn splitmix(z: &mut u64) -> u64 {
    *z = z.wrapping_add(0x9E37_79B9_7F4A_7C15);
    let mut x = *z;
    x = (x ^ (x >> 30)).wrapping_mul(0xBF58_476D_1CE4_E5B9);
    x = (x ^ (x >> 27)).wrapping_mul(0x94D0_49BB_1331_11EB);
    x ^ (x >> 31)
}

#[derive(Clone, Debug)]
pub struct Rng {
    s: [u64; 4],
}

/// FNV-1a of a tag, so that engines draw from unrelated streams.
pub fn tag(s: &str) -> u64 {
    let mut h = 0xcbf2_9ce4_8422_2325u64;
    for b in s.bytes() {
        h ^= b as u64;
        h = h.wrapping_mul(0x100_0000_01b3);
    }
    h
}

impl Rng {
    /// the stream of run `index` of engine `tag` under `seed`
    pub fn stream(seed: u64, tag: u64, index: u64) -> Rng {
        let mut z = seed ^ tag.rotate_left(17);
        let a = splitmix(&mut z);
        let mut z2 = a ^ index.wrapping_mul(0xD6E8_FEB8_6659_FD93);
        let s = [
            splitmix(&mut z2),
            splitmix(&mut z2),
            splitmix(&mut z2),
            splitmix(&mut z2),
        ];
        Rng { s }
    }

    #[inline]
    pub fn next_u64(&mut self) -> u64 {
        let r = self.s[1].wrapping_mul(5).rotate_left(7).wrapping_mul(9);
        let t = self.s[1] << 17;
        self.s[2] ^= self.s[0];
        self.s[3] ^= self.s[1];
        self.s[1] ^= self.s[2];
        self.s[0] ^= self.s[3];
        self.s[2] ^= t;
        self.s[3] = self.s[3].rotate_left(45);
        r
    }

    /// uniform in 0..n (n > 0); the tiny modulo bias is irrelevant here
    #[inline]
    pub fn below(&mut self, n: u64) -> u64 {
        debug_assert!(n > 0);
        self.next_u64() % n
    }

    #[inline]
    pub fn range(&mut self, lo: u64, hi_incl: u64) -> u64 {
        lo + self.below(hi_incl - lo + 1)
    }

    #[inline]
    pub fn chance(&mut self, num: u64, den: u64) -> bool {
        self.below(den) < num
    }

    pub fn pick<'a, T>(&mut self, xs: &'a [T]) -> &'a T {
        &xs[self.below(xs.len() as u64) as usize]
    }

    /// index drawn proportionally to `weights` (sum > 0)
    pub fn weighted(&mut self, weights: &[u32]) -> usize {
        let total: u64 = weights.iter().map(|w| *w as u64).sum();
        let mut r = self.below(total);
        for (i, w) in weights.iter().enumerate() {
            if r < *w as u64 {
                return i;
            }
            r -= *w as u64;
        }
        weights.len() - 1
    }
}
